(* Generic interpreter of a method description (Codec/gen/MethodsGen.v):
   what the generated Read / Write methods of /repo/amqp/methods_generated.go do,
   statement by statement, plus ReadMethod / WriteMethod.  Definitions only. *)
From Coq Require Import List String NArith Bool.
Import ListNotations.
From GMQ Require Import Base.Bytes Codec.Desc Codec.Prim Codec.Value.
Open Scope N_scope.

(* value of one method argument *)
Inductive mval :=
| MNum (n : N)          (* octet short long longlong timestamp: bit pattern *)
| MBool (b : bool)      (* bit *)
| MStr (s : bytes)      (* shortstr (Go string), longstr (Go []byte) *)
| MTab (t : table).     (* *Table, never nil after a successful read *)

Definition zero_mval (k : fkind) : mval :=
  match k with
  | KBit => MBool false
  | KShortstr | KLongstr => MStr []
  | KTable => MTab []
  | _ => MNum 0
  end.

Definition env := list (string * mval).
Fixpoint env_get (e : env) (n : string) : option mval :=
  match e with
  | [] => None
  | (m, v) :: t => if String.eqb m n then Some v else env_get t n
  end.
Definition env_set (e : env) (n : string) (v : mval) : env := (n, v) :: e.
Definition env_bool (e : env) (n : string) : bool :=
  match env_get e n with Some (MBool b) => b | _ => false end.

Section Methods.
  Variable st : alloc_style.
  Variable rd : dialect -> list reader_row.
  Variable wr : dialect -> list writer_row.
  Variable d : dialect.       (* protoVersion of the connection *)

  Definition dec_field (k : fkind) (bs : bytes) : result (mval * bytes) :=
    match k with
    | KOctet => x <- dec_octet bs ;; Ok (MNum (fst x), snd x)
    | KShort => x <- dec_short bs ;; Ok (MNum (fst x), snd x)
    | KLong => x <- dec_long bs ;; Ok (MNum (fst x), snd x)
    | KLonglong => x <- dec_longlong bs ;; Ok (MNum (fst x), snd x)
    | KTimestamp => x <- dec_timestamp bs ;; Ok (MNum (fst x), snd x)
    | KShortstr => x <- dec_shortstr bs ;; Ok (MStr (fst x), snd x)
    | KLongstr => x <- dec_longstr st bs ;; Ok (MStr (fst x), snd x)
    | KTable => x <- dec_table st rd d bs ;; Ok (MTab (fst x), snd x)
    | KBit => Err   (* bits are never read on their own *)
    end.

  Definition enc_field (k : fkind) (v : mval) : option bytes :=
    match k, v with
    | KOctet, MNum n => Some (enc_octet n)
    | KShort, MNum n => Some (enc_short n)
    | KLong, MNum n => Some (enc_long n)
    | KLonglong, MNum n => Some (enc_longlong n)
    | KTimestamp, MNum n => Some (enc_timestamp n)
    | KShortstr, MStr s => Some (enc_shortstr s)
    | KLongstr, MStr s => Some (enc_longstr s)
    | KTable, MTab t => enc_table wr d t
    | _, _ => None
    end.

  Definition wf_mval (k : fkind) (v : mval) : bool :=
    match k, v with
    | KOctet, MNum n => n <? 2 ^ 8
    | KShort, MNum n => n <? 2 ^ 16
    | KLong, MNum n => n <? 2 ^ 32
    | KLonglong, MNum n | KTimestamp, MNum n => n <? 2 ^ 64
    | KShortstr, MStr s => blen s <? 256
    | KLongstr, MStr s => blen s <? 2 ^ 32
    | KTable, MTab t => wf_table rd wr d t
    | KBit, MBool _ => true
    | _, _ => false
    end.

  (* ---- the Read method, statement by statement ---- *)
  Fixpoint dec_steps (steps : list rstep) (bits : N) (e : env) (bs : bytes) : result (env * bytes) :=
    match steps with
    | [] => Ok (e, bs)
    | RField n k :: t => x <- dec_field k bs ;; dec_steps t bits (env_set e n (fst x)) (snd x)
    | RBitsOctet :: t => x <- dec_octet bs ;; dec_steps t (fst x) e (snd x)
    | RBit n i :: t => dec_steps t bits (env_set e n (MBool (N.testbit bits i))) bs
    end.

  (* ---- the Write method ---- *)
  Fixpoint enc_steps (steps : list wstep) (bits : N) (e : env) : option bytes :=
    match steps with
    | [] => Some []
    | WField n k :: t =>
      v <-? env_get e n ;; a <-? enc_field k v ;; b <-? enc_steps t bits e ;; Some (a ++ b)
    | WBitsInit :: t => enc_steps t 0 e
    | WBitSet n i :: t => enc_steps t (if env_bool e n then N.lor bits (N.shiftl 1 i) else bits) e
    | WBitsFlush :: t => b <-? enc_steps t bits e ;; Some ((bits mod 256) :: b)
    end.

  Definition values_of (fields : list (string * fkind)) (e : env) : list mval :=
    map (fun f => match env_get e (fst f) with Some v => v | None => zero_mval (snd f) end) fields.
  Definition env_of (fields : list (string * fkind)) (vals : list mval) : env :=
    combine (map fst fields) vals.

  (* method.Read into a zero struct; result = the struct's fields in declaration order *)
  Definition dec_method (m : method_desc) (bs : bytes) : result (list mval * bytes) :=
    x <- dec_steps (m_read m) 0 (env_of (m_fields m) (map (fun f => zero_mval (snd f)) (m_fields m))) bs ;;
    Ok (values_of (m_fields m) (fst x), snd x).
  Definition enc_method (m : method_desc) (vals : list mval) : option bytes :=
    enc_steps (m_write m) 0 (env_of (m_fields m) vals).

  Fixpoint wf_vals (fields : list (string * fkind)) (vals : list mval) : bool :=
    match fields, vals with
    | [], [] => true
    | f :: ft, v :: vt => wf_mval (snd f) v && wf_vals ft vt
    | _, _ => false
    end.

  (* ---- ReadMethod / WriteMethod ---- *)
  Variable methods : list method_desc.
  Variable dispatch : list (N * N * string).

  Definition find_method (name : string) : option method_desc :=
    find (fun m => String.eqb (m_name m) name) methods.
  Definition dispatch_lookup (c i : N) : option string :=
    match find (fun r => (fst (fst r) =? c) && (snd (fst r) =? i)) dispatch with
    | Some r => Some (snd r)
    | None => None
    end.

  (* payload of a method frame -> (struct name, field values) *)
  Definition dec_method_frame (bs : bytes) : result (string * list mval * bytes) :=
    c <- dec_short bs ;; i <- dec_short (snd c) ;;
    match dispatch_lookup (fst c) (fst i) with
    | None => Err                             (* unknown classID and methodID *)
    | Some name =>
      match find_method name with
      | None => Err
      | Some m => x <- dec_method m (snd i) ;; Ok (name, fst x, snd x)
      end
    end.

  Definition enc_method_frame (m : method_desc) (vals : list mval) : option bytes :=
    b <-? enc_method m vals ;; Some (enc_short (m_class m) ++ enc_short (m_id m) ++ b).
End Methods.

(* ---------- layouts: what a step list means as a sequence of wire items ---------- *)
Inductive item :=
| IField (name : string) (k : fkind)
| IBits (l : list (string * N)).          (* one octet; field <-> bit index *)

(* Read side: RBitsOctet followed by the RBit's that use it *)
Fixpoint rlayout (rs : list rstep) : option (list (string * N) * list item) :=
  match rs with
  | [] => Some ([], [])
  | RField n k :: t =>
    match rlayout t with Some ([], its) => Some ([], IField n k :: its) | _ => None end
  | RBit n i :: t =>
    match rlayout t with Some (pend, its) => Some ((n, i) :: pend, its) | None => None end
  | RBitsOctet :: t =>
    match rlayout t with Some (pend, its) => Some ([], IBits pend :: its) | None => None end
  end.
Definition read_layout (rs : list rstep) : option (list item) :=
  match rlayout rs with Some ([], its) => Some its | _ => None end.

(* Write side: WBitsInit, the WBitSet's, WBitsFlush *)
Fixpoint wlayout (ws : list wstep) : option (option (list (string * N)) * list item) :=
  match ws with
  | [] => Some (None, [])
  | WField n k :: t =>
    match wlayout t with Some (None, its) => Some (None, IField n k :: its) | _ => None end
  | WBitsFlush :: t =>
    match wlayout t with Some (None, its) => Some (Some [], its) | _ => None end
  | WBitSet n i :: t =>
    match wlayout t with Some (Some pend, its) => Some (Some ((n, i) :: pend), its) | _ => None end
  | WBitsInit :: t =>
    match wlayout t with Some (Some pend, its) => Some (None, IBits pend :: its) | _ => None end
  end.
Definition write_layout (ws : list wstep) : option (list item) :=
  match wlayout ws with Some (None, its) => Some its | _ => None end.

Definition bit_eqb (a b : string * N) : bool := String.eqb (fst a) (fst b) && (snd a =? snd b).
Fixpoint list_eqb {A} (eqb : A -> A -> bool) (l1 l2 : list A) : bool :=
  match l1, l2 with
  | [], [] => true
  | x :: t1, y :: t2 => eqb x y && list_eqb eqb t1 t2
  | _, _ => false
  end.
Definition item_eqb (a b : item) : bool :=
  match a, b with
  | IField n k, IField n' k' => String.eqb n n' && fkind_eqb k k'
  | IBits l, IBits l' => list_eqb bit_eqb l l'
  | _, _ => false
  end.

Fixpoint N_nodup (l : list N) : bool :=
  match l with [] => true | x :: t => negb (existsb (N.eqb x) t) && N_nodup t end.
Fixpoint str_nodup (l : list string) : bool :=
  match l with [] => true | x :: t => negb (existsb (String.eqb x) t) && str_nodup t end.

Definition field_in (fields : list (string * fkind)) (n : string) (k : fkind) : bool :=
  existsb (fun f => String.eqb (fst f) n && fkind_eqb (snd f) k) fields.

Definition item_ok (fields : list (string * fkind)) (it : item) : bool :=
  match it with
  | IField n k => negb (fkind_eqb k KBit) && field_in fields n k
  | IBits l => forallb (fun b => (snd b <? 8) && field_in fields (fst b) KBit) l && N_nodup (map snd l)
  end.

Definition item_names (it : item) : list string :=
  match it with IField n _ => [n] | IBits l => map fst l end.

(* A description round-trips when its Read and Write sides mean the same layout, every bit group
   uses distinct indices below 8, every item is a struct field of the right kind, and every struct
   field is read. *)
Definition wf_desc (m : method_desc) : bool :=
  match read_layout (m_read m), write_layout (m_write m) with
  | Some lr, Some lw =>
    list_eqb item_eqb lr lw &&
    forallb (item_ok (m_fields m)) lr &&
    str_nodup (map fst (m_fields m)) &&
    forallb (fun f => existsb (String.eqb (fst f)) (flat_map item_names lr)) (m_fields m)
  | _, _ => false
  end.

(* ReadMethod's switch and the methods' own ids describe the same bijection *)
Definition dispatch_ok (methods : list method_desc) (dispatch : list (N * N * string)) : bool :=
  forallb (fun m => match dispatch_lookup dispatch (m_class m) (m_id m) with
                    | Some n => String.eqb n (m_name m) | None => false end) methods &&
  forallb (fun r => match find_method methods (snd r) with
                    | Some m => (m_class m =? fst (fst r)) && (m_id m =? snd (fst r)) | None => false end) dispatch &&
  str_nodup (map m_name methods) &&
  (Nat.eqb (List.length methods) (List.length dispatch)).
