(* The codec model instantiated with the tables regenerated from /repo:
   these are the functions the theorems of Props/C12.v and Props/C11.v talk about
   and the correspondence runs.  Definitions only. *)
From Coq Require Import List String NArith Bool.
Import ListNotations.
From GMQ Require Import Base.Bytes Codec.Desc Codec.Prim Codec.Value Codec.MethodCodec Codec.Header Codec.Frame Codec.Records.
From GMQ Require Import Codec.gen.MethodsGen Codec.gen.TagsGen Codec.gen.ConstGen Codec.gen.SpecGen Codec.gen.RecordsGen.
Open Scope N_scope.

Definition rd_gen (d : dialect) : list reader_row := match d with D091 => reader_091 | DRabbit => reader_rabbit end.
Definition wr_gen (d : dialect) : list writer_row := match d with D091 => writer_091 | DRabbit => writer_rabbit end.

Definition decode_value (d : dialect) (bs : bytes) := dec_value_top longstr_alloc rd_gen d bs.
Definition encode_value (d : dialect) (v : fval) := enc_value wr_gen d v.
Definition decode_table (d : dialect) (bs : bytes) := dec_table longstr_alloc rd_gen d bs.
Definition encode_table (d : dialect) (t : table) := enc_table wr_gen d t.
Definition decode_longstr (bs : bytes) := dec_longstr longstr_alloc bs.

Definition decode_method (d : dialect) (m : method_desc) (bs : bytes) := dec_method longstr_alloc rd_gen d m bs.
Definition encode_method (d : dialect) (m : method_desc) (vals : list mval) := enc_method wr_gen d m vals.
Definition decode_method_frame (d : dialect) (bs : bytes) :=
  dec_method_frame longstr_alloc rd_gen d all_methods read_dispatch bs.
Definition encode_method_frame (d : dialect) (m : method_desc) (vals : list mval) := enc_method_frame wr_gen d m vals.
Definition wf_method_vals (d : dialect) (m : method_desc) (vals : list mval) := wf_vals rd_gen wr_gen d (m_fields m) vals.

Definition decode_header (d : dialect) (bs : bytes) := dec_header longstr_alloc rd_gen d props_fields props_read bs.
Definition encode_header (d : dialect) (h : header) := enc_header wr_gen d props_fields props_write h.
Definition wf_header_gen (d : dialect) (h : header) := wf_header rd_gen wr_gen d props_fields h.

Definition decode_frame (bs : bytes) := dec_frame frame_alloc c_FrameEnd bs.
Definition encode_frame (f : frame) := enc_frame c_FrameEnd f.

Definition decode_message (d : dialect) (bs : bytes) :=
  dec_message longstr_alloc frame_alloc c_FrameEnd rd_gen d props_fields props_read message_trailer_read bs.
Definition encode_message (d : dialect) (m : message) := enc_message c_FrameEnd wr_gen d props_fields props_write message_trailer_written m.
(* a record as written before the trailer existed *)
Definition encode_message_legacy (d : dialect) (m : message) := enc_message c_FrameEnd wr_gen d props_fields props_write false m.
Definition wf_message_gen (d : dialect) (m : message) := wf_message rd_gen wr_gen d props_fields message_trailer_written m.
Definition wf_message_legacy (d : dialect) (m : message) := wf_message rd_gen wr_gen d props_fields false m.
Definition decode_binding (d : dialect) (bs : bytes) := dec_binding longstr_alloc rd_gen d bs.
Definition encode_binding (d : dialect) (b : binding_rec) := enc_binding wr_gen d b.
Definition wf_binding_gen (d : dialect) (b : binding_rec) := wf_binding rd_gen wr_gen d b.
