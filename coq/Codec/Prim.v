(* L0 wire primitives of /repo/amqp/readers_writers.go: octet, short, long,
   longlong, timestamp, shortstr, longstr.  Definitions only.

   Decoders return [result]: Ok / Err / Panic / Alloc n / Fuel.
     Err      the Go function returns a non-nil error (short read, bad tag, bad frame end, ...)
     Panic    the Go code panics (slice bound, nil dereference)
     Alloc n  the Go code returns an error AFTER committing n bytes of memory to a length field
              whose data never arrived (make([]byte, n) followed by a failing io.ReadFull)
     Fuel     the model ran out of recursion fuel (proved impossible for fuel > input length)
   Numbers are N; a Go uintK/intK value is its K-bit pattern. *)
From Coq Require Import List NArith Bool.
Import ListNotations.
From GMQ Require Import Base.Bytes Codec.Desc.
Open Scope N_scope.

Inductive result (A : Type) :=
| Ok (a : A) | Err | Panic | Alloc (n : N) | Fuel.
Arguments Ok {A} a.
Arguments Err {A}.
Arguments Panic {A}.
Arguments Alloc {A} n.
Arguments Fuel {A}.

Definition bind {A B} (r : result A) (f : A -> result B) : result B :=
  match r with
  | Ok a => f a
  | Err => Err
  | Panic => Panic
  | Alloc n => Alloc n
  | Fuel => Fuel
  end.
Notation "x <- e ;; f" := (bind e (fun x => f)) (at level 61, e at next level, right associativity).

Definition obind {A B} (r : option A) (f : A -> option B) : option B :=
  match r with Some a => f a | None => None end.
Notation "x <-? e ;; f" := (obind e (fun x => f)) (at level 61, e at next level, right associativity).

(* ---------- fixed-width numbers ---------- *)
(* ReadOctet / ReadShort / ReadLong / ReadLonglong: io.ReadFull of k bytes *)
Definition dec_fixed (k : nat) (bs : bytes) : result (N * bytes) :=
  match take k bs with
  | Some (h, r) => Ok (be_dec h, r)
  | None => Err
  end.
Definition dec_octet := dec_fixed 1.
Definition dec_short := dec_fixed 2.
Definition dec_long := dec_fixed 4.
Definition dec_longlong := dec_fixed 8.
(* ReadTimestamp: time.Unix(int64(seconds), 0); WriteTimestamp: uint64(t.Unix()) - identity on the 64-bit pattern *)
Definition dec_timestamp := dec_fixed 8.

Definition enc_octet (n : N) : bytes := be_enc 1 n.
Definition enc_short (n : N) : bytes := be_enc 2 n.
Definition enc_long (n : N) : bytes := be_enc 4 n.
Definition enc_longlong (n : N) : bytes := be_enc 8 n.
Definition enc_timestamp (n : N) : bytes := be_enc 8 n.

(* ---------- strings ---------- *)
(* ReadShortstr: length octet, make([]byte, length) (at most 255), io.ReadFull *)
Definition dec_shortstr (bs : bytes) : result (bytes * bytes) :=
  x <- dec_octet bs ;;
  match takeN (fst x) (snd x) with
  | Some (s, r) => Ok (s, r)
  | None => Err
  end.
(* WriteShortstr: byte(len(data)) then ALL of data (no length check: defect F31 when len > 255) *)
Definition enc_shortstr (s : bytes) : bytes := (blen s mod 256) :: s.

(* memory committed to a wire length n before its data has arrived *)
Definition committed (st : alloc_style) (n : N) : N :=
  match st with
  | AllocWire => n
  | AllocChunked cap => N.min n cap
  end.

(* ReadLongstr: length long, buffer, io.ReadFull *)
Definition dec_longstr (st : alloc_style) (bs : bytes) : result (bytes * bytes) :=
  x <- dec_long bs ;;
  match takeN (fst x) (snd x) with
  | Some (s, r) => Ok (s, r)
  | None => Alloc (committed st (fst x))
  end.
(* WriteLongstr: uint32(len(data)) then data *)
Definition enc_longstr (s : bytes) : bytes := be_enc 4 (blen s) ++ s.
