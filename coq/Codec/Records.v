(* Storage records: Message.Marshal/Unmarshal (amqp/types.go), Queue, Exchange and Binding
   Marshal/Unmarshal (queue/queue.go, exchange/exchange.go, binding/binding.go).
   Only what is stored is modelled (Mandatory/Immediate/ConfirmMeta of a message,
   CloseAfter/Sync of a frame, durable/exclusive/arguments of a queue are not stored: findings F22).
   Definitions only. *)
From Coq Require Import List String NArith Bool.
Import ListNotations.
From GMQ Require Import Base.Bytes Codec.Desc Codec.Prim Codec.Value Codec.MethodCodec Codec.Header Codec.Frame.
Open Scope N_scope.

Record message := { msg_id : N; msg_header : header; msg_exchange : bytes; msg_rk : bytes; msg_body : list frame;
                    msg_count : N (* DeliveryCount, uint32 *) }.
Record queue_rec := { q_name : bytes; q_autodelete : bool }.
Record exchange_rec := { ex_name : bytes; ex_type : N }.
Record binding_rec := { b_queue : bytes; b_exchange : bytes; b_rk : bytes; b_args : table; b_topic : bool }.

Section Records.
  Variable st : alloc_style.
  Variable fa : frame_alloc_style.
  Variable frame_end : N.
  Variable rd : dialect -> list reader_row.
  Variable wr : dialect -> list writer_row.
  Variable d : dialect.
  Variable pf : list (string * fkind).
  Variable pr : list prop_row.
  Variable pw : list prop_row.

  (* for m.BodySize < m.Header.BodySize { body := ReadFrame(reader); m.Append(body) }
     (m.BodySize starts at 0 in a fresh Message; uint64 wrap of the sum is not modelled:
      it would need 2^64 bytes of input) *)
  Fixpoint dec_body (fuel : nat) (have want : N) (bs : bytes) : result (list frame * bytes) :=
    match fuel with
    | O => Fuel
    | S f =>
      if have <? want then
        x <- dec_frame fa frame_end bs ;;
        y <- dec_body f (have + blen (f_payload (fst x))) want (snd x) ;;
        Ok (fst x :: fst y, snd y)
      else Ok ([], bs)
    end.

  (* whether Marshal writes / Unmarshal reads the delivery-count trailer: regenerated from the source
     (Codec/gen/RecordsGen.v); records written before the trailer existed have none *)
  Variable tw : bool.
  Variable tr : bool.

  (* everything up to and including the body frames *)
  Definition dec_message_core (bs : bytes) : result (message * bytes) :=
    i <- dec_longlong bs ;;
    h <- dec_header st rd d pf pr (snd i) ;;
    ex <- dec_shortstr (snd h) ;;
    rk <- dec_shortstr (snd ex) ;;
    b <- dec_body (S (List.length (snd rk))) 0 (h_body_size (fst h)) (snd rk) ;;
    Ok ({| msg_id := fst i; msg_header := fst h; msg_exchange := fst ex; msg_rk := fst rk; msg_body := fst b; msg_count := 0 |}, snd b).

  Definition with_count (m : message) (c : N) : message :=
    {| msg_id := msg_id m; msg_header := msg_header m; msg_exchange := msg_exchange m; msg_rk := msg_rk m;
       msg_body := msg_body m; msg_count := c |}.

  (* `if reader.Len() >= 4 { m.DeliveryCount = ReadLong(reader) }`: fewer than 4 trailing bytes are ignored *)
  Definition dec_message (bs : bytes) : result (message * bytes) :=
    x <- dec_message_core bs ;;
    if tr && (4 <=? blen (snd x)) then c <- dec_long (snd x) ;; Ok (with_count (fst x) (fst c), snd c)
    else Ok x.

  Definition enc_message_core (m : message) : option bytes :=
    h <-? enc_header wr d pf pw (msg_header m) ;;
    Some (enc_longlong (msg_id m) ++ h ++ enc_shortstr (msg_exchange m) ++ enc_shortstr (msg_rk m) ++
          flat_map (enc_frame frame_end) (msg_body m)).
  Definition enc_message (m : message) : option bytes :=
    b <-? enc_message_core m ;; Some (b ++ (if tw then enc_long (msg_count m) else [])).

  Definition body_total (fs : list frame) : N := fold_right (fun f a => blen (f_payload f) + a) 0 fs.
  (* Unmarshal stops as soon as the announced size is reached: the stored frames round-trip when
     their sizes add up to the header's body size and the last one is not empty *)
  Definition wf_message_core (m : message) : bool :=
    (msg_id m <? 2 ^ 64) && wf_header rd wr d pf (msg_header m) &&
    (blen (msg_exchange m) <? 256) && (blen (msg_rk m) <? 256) &&
    forallb wf_frame (msg_body m) &&
    (body_total (msg_body m) =? h_body_size (msg_header m)) &&
    match rev (msg_body m) with [] => true | l :: _ => 0 <? blen (f_payload l) end.
  (* with the trailer the count is a uint32; without it only a count of 0 comes back *)
  Definition wf_message (m : message) : bool :=
    wf_message_core m && (if tw then msg_count m <? 2 ^ 32 else msg_count m =? 0).

  (* Queue: name, auto-delete octet (read back as `> 0`) *)
  Definition dec_queue (bs : bytes) : result (queue_rec * bytes) :=
    n <- dec_shortstr bs ;; a <- dec_octet (snd n) ;;
    Ok ({| q_name := fst n; q_autodelete := 0 <? fst a |}, snd a).
  Definition enc_queue (q : queue_rec) : bytes :=
    enc_shortstr (q_name q) ++ enc_octet (if q_autodelete q then 1 else 0).

  (* Exchange: name, type octet *)
  Definition dec_exchange (bs : bytes) : result (exchange_rec * bytes) :=
    n <- dec_shortstr bs ;; t <- dec_octet (snd n) ;;
    Ok ({| ex_name := fst n; ex_type := fst t |}, snd t).
  Definition enc_exchange (e : exchange_rec) : bytes :=
    enc_shortstr (ex_name e) ++ enc_octet (ex_type e).

  (* Binding: queue, exchange, routing key, arguments table, topic octet (read back as `== 1`).
     Unmarshal then compiles the topic pattern (regexp): not part of the codec model. *)
  Definition dec_binding (bs : bytes) : result (binding_rec * bytes) :=
    q <- dec_shortstr bs ;; e <- dec_shortstr (snd q) ;; k <- dec_shortstr (snd e) ;;
    a <- dec_table st rd d (snd k) ;; t <- dec_octet (snd a) ;;
    Ok ({| b_queue := fst q; b_exchange := fst e; b_rk := fst k; b_args := fst a; b_topic := fst t =? 1 |}, snd t).
  Definition enc_binding (b : binding_rec) : option bytes :=
    a <-? enc_table wr d (b_args b) ;;
    Some (enc_shortstr (b_queue b) ++ enc_shortstr (b_exchange b) ++ enc_shortstr (b_rk b) ++ a ++
          enc_octet (if b_topic b then 1 else 0)).

  Definition wf_queue (q : queue_rec) : bool := blen (q_name q) <? 256.
  Definition wf_exchange (e : exchange_rec) : bool := (blen (ex_name e) <? 256) && (ex_type e <? 256).
  Definition wf_binding (b : binding_rec) : bool :=
    (blen (b_queue b) <? 256) && (blen (b_exchange b) <? 256) && (blen (b_rk b) <? 256) &&
    wf_table rd wr d (b_args b).
End Records.
