(* Field-table values, tables and arrays of both dialects
   (readValue091 / readValueRabbit / writeValue091 / writeValueRabbit, ReadTable,
   WriteTable, readArray, writeArray of /repo/amqp/readers_writers.go).
   The per-tag behaviour is NOT written here: the interpreters below are driven
   by the reader / writer rows regenerated from the Go switch statements
   (Codec/gen/TagsGen.v).  Definitions only.

   Go value                         model
   bool, intK, uintK, floatK,       VNum t n      t = Go dynamic type, n = bit pattern (bool: 0/1,
   time.Time                                      time: the 64-bit seconds pattern)
   Decimal{Scale, Value}            VDec scale value
   string, []byte                   VStr t s
   []interface{}                    VArr l
   *Table, Table                    VTab t kv     t = TTablePtr / TTableVal; kv = association list,
                                                  keys unique, order = order of first insertion
                                                  (Go: map; order is not observable - compare as maps)
   nil                              VNil *)
From Coq Require Import List NArith Bool.
Import ListNotations.
From GMQ Require Import Base.Bytes Codec.Desc Codec.Prim.
Open Scope N_scope.

Inductive fval :=
| VNum (t : gotype) (n : N)
| VDec (scale value : N)
| VStr (t : gotype) (s : bytes)
| VArr (l : list fval)
| VTab (t : gotype) (kv : list (bytes * fval))
| VNil.

Definition table := list (bytes * fval).

Definition type_of (v : fval) : gotype :=
  match v with
  | VNum t _ => t
  | VDec _ _ => TDecimal
  | VStr t _ => t
  | VArr _ => TArray
  | VTab t _ => t
  | VNil => TNil
  end.

(* Go: tmpData[key] = value  (a later duplicate key replaces the earlier entry) *)
Definition tset (t : table) (k : bytes) (v : fval) : table :=
  filter (fun e => negb (bytes_eqb (fst e) k)) t ++ [(k, v)].
Definition tnorm (raw : table) : table :=
  fold_left (fun acc e => tset acc (fst e) (snd e)) raw [].

Definition lookup_reader (tbl : list reader_row) (tag : N) : option reader_row :=
  find (fun r => rr_tag r =? tag) tbl.
Definition lookup_writer (tbl : list writer_row) (t : gotype) : option writer_row :=
  find (fun w => gotype_eqb (wr_type w) t) tbl.

(* what `var rData T` holds when the read failed and the inverted test lets it through (F08) *)
Definition zero_of (t : gotype) (w : wire) : fval :=
  match w with
  | WShortstr | WLongstr => VStr t []
  | WArray _ => VArr []
  | WTable _ => VTab t []
  | WTimestamp => VNum t (2 ^ 64 - 62135596800)     (* time.Time{}.Unix() *)
  | WDecimal => VDec 0 0
  | WNothing => VNil
  | _ => VNum t 0
  end.

Section Decode.
  Variable st : alloc_style.
  Variable rd : dialect -> list reader_row.

  (* position of the stream after a FAILED read of wire kind w (only needed for inverted tests):
     a short read has consumed everything; a failure inside a table/array body leaves the
     stream after the body *)
  Definition rest_after_failure (w : wire) (r : bytes) : bytes :=
    match w with
    | WArray _ | WTable _ =>
      match dec_longstr st r with Ok (_, r') => r' | _ => [] end
    | _ => []
    end.

  Fixpoint dec_value (fuel : nat) (d : dialect) (bs : bytes) {struct fuel} : result (fval * bytes) :=
    match fuel with
    | O => Fuel
    | S f =>
      x <- dec_octet bs ;;
      let tag := fst x in
      let r := snd x in
      match lookup_reader (rd d) tag with
      | None => Err                                  (* unsupported type *)
      | Some row =>
        let t := rr_type row in
        let res : result (fval * bytes) :=
          match rr_wire row with
          | WNothing => Ok (VNil, r)
          | WBoolOctet => y <- dec_octet r ;; Ok (VNum t (if fst y =? 0 then 0 else 1), snd y)
          | WFixed k => y <- dec_fixed k r ;; Ok (VNum t (fst y), snd y)
          | WDecimal => s <- dec_fixed 1 r ;; y <- dec_fixed 4 (snd s) ;; Ok (VDec (fst s) (fst y), snd y)
          | WShortstr => y <- dec_shortstr r ;; Ok (VStr t (fst y), snd y)
          | WLongstr => y <- dec_longstr st r ;; Ok (VStr t (fst y), snd y)
          | WTimestamp => y <- dec_timestamp r ;; Ok (VNum t (fst y), snd y)
          | WArray d' => y <- dec_longstr st r ;; l <- dec_arr f d' (fst y) ;; Ok (VArr l, snd y)
          | WTable d' => y <- dec_longstr st r ;; raw <- dec_titems f d' (fst y) ;; Ok (VTab t (tnorm raw), snd y)
          end in
        if rr_inverted row then
          (* `if rData, err = ReadX(r); err == nil { return nil, err }; return rData, nil` *)
          match res with
          | Ok (_, r') => Ok (VNil, r')
          | Err => Ok (zero_of t (rr_wire row), rest_after_failure (rr_wire row) r)
          | other => other
          end
        else res
      end
    end
  (* readArray: values until the body is exhausted *)
  with dec_arr (fuel : nat) (d : dialect) (data : bytes) {struct fuel} : result (list fval) :=
    match fuel with
    | O => Fuel
    | S f =>
      match data with
      | [] => Ok []
      | _ => x <- dec_value f d data ;; l <- dec_arr f d (snd x) ;; Ok (fst x :: l)
      end
    end
  (* ReadTable body: (shortstr key, value) pairs until the body is exhausted *)
  with dec_titems (fuel : nat) (d : dialect) (data : bytes) {struct fuel} : result table :=
    match fuel with
    | O => Fuel
    | S f =>
      match data with
      | [] => Ok []
      | _ => k <- dec_shortstr data ;; x <- dec_value f d (snd k) ;; l <- dec_titems f d (snd x) ;;
             Ok ((fst k, fst x) :: l)
      end
    end.

  (* ReadTable(r, proto): the whole longstr first, then its entries *)
  Definition dec_table_fuel (fuel : nat) (d : dialect) (bs : bytes) : result (table * bytes) :=
    y <- dec_longstr st bs ;; raw <- dec_titems fuel d (fst y) ;; Ok (tnorm raw, snd y).
  Definition dec_table (d : dialect) (bs : bytes) : result (table * bytes) :=
    dec_table_fuel (S (length bs)) d bs.
  Definition dec_value_top (d : dialect) (bs : bytes) : result (fval * bytes) :=
    dec_value (S (length bs)) d bs.
End Decode.

(* concatenation of encodings, failing when one of them fails *)
Fixpoint concat_opt (l : list (option bytes)) : option bytes :=
  match l with
  | [] => Some []
  | x :: t => a <-? x ;; b <-? concat_opt t ;; Some (a ++ b)
  end.

Section Encode.
  Variable wr : dialect -> list writer_row.

  (* None = the writer returns an error ("unsupported type"), or the row's wire kind does not fit
     the value (not expressible in Go) *)
  Fixpoint enc_value (d : dialect) (v : fval) {struct v} : option bytes :=
    match lookup_writer (wr d) (type_of v) with
    | None => None
    | Some row =>
      if wr_inverted row then Some [wr_tag row]   (* tag written, payload skipped *)
      else
        payload <-?
          match wr_wire row, v with
          | WNothing, _ => Some []
          | WBoolOctet, VNum _ n => Some [if n =? 0 then 0 else 1]
          | WFixed k, VNum _ n => Some (be_enc k n)
          | WDecimal, VDec s x => Some (be_enc 1 s ++ be_enc 4 x)
          | WShortstr, VStr _ s => Some (enc_shortstr s)
          | WLongstr, VStr _ s => Some (enc_longstr s)
          | WTimestamp, VNum _ n => Some (enc_timestamp n)
          | WArray d', VArr l =>
            (* writeArray: every value in order into a buffer, then WriteLongstr *)
            body <-? concat_opt (map (enc_value d') l) ;; Some (enc_longstr body)
          | WTable d', VTab _ kv =>
            (* WriteTable: (WriteShortstr key, value) for every entry into a buffer, then WriteLongstr *)
            body <-? concat_opt (map (fun e => a <-? enc_value d' (snd e) ;; Some (enc_shortstr (fst e) ++ a)) kv) ;;
            Some (enc_longstr body)
          | _, _ => None
          end ;;
        Some (wr_tag row :: payload)
    end.

  Definition enc_arr_body (d : dialect) (l : list fval) : option bytes :=
    concat_opt (map (enc_value d) l).
  Definition enc_entry (d : dialect) (e : bytes * fval) : option bytes :=
    a <-? enc_value d (snd e) ;; Some (enc_shortstr (fst e) ++ a).
  Definition enc_titems (d : dialect) (kv : table) : option bytes :=
    concat_opt (map (enc_entry d) kv).
  (* WriteTable(w, &t, proto) in list order (Go: map order, unspecified) *)
  Definition enc_table (d : dialect) (kv : table) : option bytes :=
    body <-? enc_titems d kv ;; Some (enc_longstr body).
End Encode.

(* ---------- well-formedness: exactly what the round trip needs ---------- *)
Definition width_ok (k : nat) (n : N) : bool := n <? 2 ^ (8 * N.of_nat k).

Fixpoint keys_nodup (ks : list bytes) : bool :=
  match ks with
  | [] => true
  | k :: t => negb (existsb (bytes_eqb k) t) && keys_nodup t
  end.

Section WF.
  Variable rd : dialect -> list reader_row.
  Variable wr : dialect -> list writer_row.

  (* v can be written in dialect d, is what the reader of d produces for those bytes
     (type and wire agree in both tables, neither err test inverted) and all sizes fit *)
  Fixpoint wf_value (d : dialect) (v : fval) {struct v} : bool :=
    match lookup_writer (wr d) (type_of v) with
    | None => false
    | Some w =>
      match lookup_reader (rd d) (wr_tag w) with
      | None => false
      | Some r =>
        gotype_eqb (rr_type r) (type_of v) && wire_eqb (rr_wire r) (wr_wire w) &&
        negb (rr_inverted r) && negb (wr_inverted w) &&
        match wr_wire w, v with
        | WNothing, VNil => true
        | WBoolOctet, VNum _ n => n <? 2
        | WFixed k, VNum _ n => width_ok k n
        | WDecimal, VDec s x => width_ok 1 s && width_ok 4 x
        | WShortstr, VStr _ s => blen s <? 256
        | WLongstr, VStr _ s => blen s <? 2 ^ 32
        | WTimestamp, VNum _ n => width_ok 8 n
        | WArray d', VArr l =>
          forallb (wf_value d') l &&
          match enc_arr_body wr d' l with Some b => blen b <? 2 ^ 32 | None => false end
        | WTable d', VTab _ kv =>
          forallb (fun e => (blen (fst e) <? 256) && wf_value d' (snd e)) kv &&
          keys_nodup (map fst kv) &&
          match enc_titems wr d' kv with Some b => blen b <? 2 ^ 32 | None => false end
        | _, _ => false
        end
      end
    end.

  Definition wf_table (d : dialect) (kv : table) : bool :=
    forallb (fun e => (blen (fst e) <? 256) && wf_value d (snd e)) kv &&
    keys_nodup (map fst kv) &&
    match enc_titems wr d kv with Some b => blen b <? 2 ^ 32 | None => false end.
End WF.

(* ---------- the two tag tables are mutually inverse on what the reader produces ---------- *)
Definition shape_fits (w : wire) (t : gotype) : bool :=
  match w, t with
  | WNothing, TNil => true
  | WBoolOctet, TBool => true
  | WFixed 1, (TInt8 | TUint8) | WFixed 2, (TInt16 | TUint16) | WFixed 4, (TInt32 | TUint32 | TFloat32)
  | WFixed 8, (TInt64 | TUint64 | TFloat64) => true
  | WDecimal, TDecimal => true
  | WShortstr, TString | WLongstr, (TString | TBytes) => true
  | WTimestamp, TTime => true
  | WArray _, TArray => true
  | WTable _, (TTablePtr | TTableVal) => true
  | _, _ => false
  end.

Definition reader_row_ok (rd : list reader_row) (wr : list writer_row) (d : dialect) (r : reader_row) : bool :=
  negb (rr_inverted r) && shape_fits (rr_wire r) (rr_type r) &&
  match rr_wire r with WArray d' | WTable d' => dialect_eqb d' d | _ => true end &&
  match lookup_reader rd (rr_tag r) with
  | Some r' => gotype_eqb (rr_type r') (rr_type r) && wire_eqb (rr_wire r') (rr_wire r)   (* no earlier row shadows it *)
  | None => false
  end &&
  match lookup_writer wr (rr_type r) with
  | Some w => (wr_tag w =? rr_tag r) && wire_eqb (wr_wire w) (rr_wire r) && negb (wr_inverted w)
  | None => false
  end.

Definition tags_ok (rd : dialect -> list reader_row) (wr : dialect -> list writer_row) (d : dialect) : bool :=
  forallb (reader_row_ok (rd d) (wr d) d) (rd d).
