(* "matches the AMQP grammar": boolean comparison of what the Go code does
   (Codec/gen/MethodsGen.v, ConstGen.v) with what the protocol XML says
   (Codec/gen/SpecGen.v).  Definitions only; evaluated by vm_compute in the proofs. *)
From Coq Require Import List String NArith Bool.
Import ListNotations.
From GMQ Require Import Base.Bytes Codec.Desc Codec.MethodCodec Codec.Header.
Open Scope N_scope.

(* The layout the grammar prescribes: fields in order; consecutive bit fields share
   one octet, first bit = bit 0 (AMQP 0-9-1 section 4.2.5.2). *)
Fixpoint spec_layout_aux (fs : list (string * fkind)) (pend : list (string * N)) (nextbit : N) : list item :=
  match fs with
  | [] => match pend with [] => [] | _ => [IBits (rev pend)] end
  | (n, KBit) :: t =>
    if nextbit <? 8 then spec_layout_aux t ((n, nextbit) :: pend) (nextbit + 1)
    else IBits (rev pend) :: spec_layout_aux t [(n, 0)] 1
  | (n, k) :: t =>
    match pend with
    | [] => IField n k :: spec_layout_aux t [] 0
    | _ => IBits (rev pend) :: IField n k :: spec_layout_aux t [] 0
    end
  end.
Definition spec_layout (fs : list (string * fkind)) : list item := spec_layout_aux fs [] 0.

Definition field_eqb (a b : string * fkind) : bool := String.eqb (fst a) (fst b) && fkind_eqb (snd a) (snd b).

Definition method_matches (m : method_desc) (s : spec_method) : bool :=
  String.eqb (m_name m) (sm_go_name s) &&
  (m_class m =? sm_class s) && (m_id m =? sm_id s) && Bool.eqb (m_sync m) (sm_sync s) &&
  list_eqb field_eqb (m_fields m) (sm_fields s) &&
  match read_layout (m_read m), write_layout (m_write m) with
  | Some lr, Some lw => list_eqb item_eqb lr (spec_layout (sm_fields s)) && list_eqb item_eqb lw (spec_layout (sm_fields s))
  | _, _ => false
  end.

Fixpoint list_rel {A B} (r : A -> B -> bool) (l1 : list A) (l2 : list B) : bool :=
  match l1, l2 with
  | [], [] => true
  | x :: t1, y :: t2 => r x y && list_rel r t1 t2
  | _, _ => false
  end.

(* every method of the grammar is implemented, in the grammar's order, and nothing else is *)
Definition methods_match_spec (ms : list method_desc) (ss : list spec_method) : bool :=
  list_rel method_matches ms ss.

(* property list: the grammar's i-th class field of `basic` is flag bit 15-i *)
Fixpoint spec_prop_rows (fs : list (string * fkind)) (bit : N) : list prop_row :=
  match fs with
  | [] => []
  | (n, k) :: t => (bit, n, k) :: spec_prop_rows t (bit - 1)
  end.
Definition props_match_spec (pf : list (string * fkind)) (pr pw : list prop_row) (sp : list (string * fkind)) : bool :=
  list_eqb field_eqb pf sp &&
  list_eqb prop_row_eqb pr (spec_prop_rows sp 15) &&
  list_eqb prop_row_eqb pw (spec_prop_rows sp 15).

(* constants: every constant of the grammar exists in the Go code with the same value;
   class and method ids exist as Class<Name> / Method<Class><Name> *)
Definition const_lookup (cs : list (string * N)) (n : string) : option N :=
  match find (fun c => String.eqb (fst c) n) cs with Some c => Some (snd c) | None => None end.
Definition consts_match_spec (go : list (string * N)) (sc : list (string * N * string))
           (classes : list (string * N)) (ss : list spec_method) : bool :=
  forallb (fun c => match const_lookup go (fst (fst c)) with Some v => v =? snd (fst c) | None => false end) sc &&
  forallb (fun s => match const_lookup go ("Method" ++ sm_go_name s) with Some v => v =? sm_id s | None => false end) ss.

(* ---- the grammar as method descriptions (for the failing-input search only) ---- *)
Fixpoint rsteps_of (its : list item) : list rstep :=
  match its with
  | [] => []
  | IField n k :: t => RField n k :: rsteps_of t
  | IBits l :: t => RBitsOctet :: map (fun b => RBit (fst b) (snd b)) l ++ rsteps_of t
  end.
Fixpoint wsteps_of (its : list item) : list wstep :=
  match its with
  | [] => []
  | IField n k :: t => WField n k :: wsteps_of t
  | IBits l :: t => WBitsInit :: map (fun b => WBitSet (fst b) (snd b)) l ++ WBitsFlush :: wsteps_of t
  end.
Definition spec_desc (s : spec_method) : method_desc :=
  {| m_name := sm_go_name s; m_class := sm_class s; m_id := sm_id s; m_sync := sm_sync s; m_from_spec := true;
     m_fields := sm_fields s;
     m_read := rsteps_of (spec_layout (sm_fields s));
     m_write := wsteps_of (spec_layout (sm_fields s)) |}.
Definition spec_dispatch (ss : list spec_method) : list (N * N * string) :=
  map (fun s => (sm_class s, sm_id s, sm_go_name s)) ss.
