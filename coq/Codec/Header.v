(* Content header: ReadContentHeader / WriteContentHeader of readers_writers.go and
   BasicPropertyList.Read / .Write of methods_generated.go.  The property list is
   interpreted from its generated description (flag bit <-> field <-> kind, as READ
   and as WRITTEN).  Definitions only. *)
From Coq Require Import List String NArith Bool.
Import ListNotations.
From GMQ Require Import Base.Bytes Codec.Desc Codec.Prim Codec.Value Codec.MethodCodec.
Open Scope N_scope.

Record header := {
  h_class : N; h_weight : N; h_body_size : N;
  h_props : list (option mval) }.      (* aligned with the struct fields of BasicPropertyList; None = nil pointer *)

Definition prop_row := (N * string * fkind)%type.
Definition pr_bit (r : prop_row) : N := fst (fst r).
Definition pr_name (r : prop_row) : string := snd (fst r).
Definition pr_kind (r : prop_row) : fkind := snd r.

Section Header.
  Variable st : alloc_style.
  Variable rd : dialect -> list reader_row.
  Variable wr : dialect -> list writer_row.
  Variable d : dialect.
  Variable pf : list (string * fkind).   (* struct fields *)
  Variable pr : list prop_row.           (* as read *)
  Variable pw : list prop_row.           (* as written *)

  (* BasicPropertyList.Read: for each row in source order, `if propertyFlags&(1<<bit) != 0 { read; store }` *)
  Fixpoint dec_props (rows : list prop_row) (flags : N) (e : env) (bs : bytes) : result (env * bytes) :=
    match rows with
    | [] => Ok (e, bs)
    | r :: t =>
      if N.testbit flags (pr_bit r)
      then x <- dec_field st rd d (pr_kind r) bs ;; dec_props t flags (env_set e (pr_name r) (fst x)) (snd x)
      else dec_props t flags e bs
    end.

  Definition props_of_env (e : env) : list (option mval) := map (fun f => env_get e (fst f)) pf.
  Fixpoint env_of_props (fields : list (string * fkind)) (ps : list (option mval)) : env :=
    match fields, ps with
    | f :: ft, Some v :: pt => (fst f, v) :: env_of_props ft pt
    | _ :: ft, None :: pt => env_of_props ft pt
    | _, _ => []
    end.

  (* ReadContentHeader: io.ReadFull of 14 octets, then class, weight, body size, flags, property list *)
  Definition dec_header (bs : bytes) : result (header * bytes) :=
    match take 14 bs with
    | None => Err
    | Some (fixed, r) =>
      c <- dec_short fixed ;; w <- dec_short (snd c) ;; s <- dec_longlong (snd w) ;; fl <- dec_short (snd s) ;;
      x <- dec_props pr (fst fl) [] r ;;
      Ok ({| h_class := fst c; h_weight := fst w; h_body_size := fst s; h_props := props_of_env (fst x) |}, snd x)
    end.

  (* BasicPropertyList.Write: `if pList.X != nil { propertyFlags |= 1 << bit; write *pList.X }` *)
  Fixpoint enc_props (rows : list prop_row) (e : env) : option (N * bytes) :=
    match rows with
    | [] => Some (0, [])
    | r :: t =>
      x <-? enc_props t e ;;
      match env_get e (pr_name r) with
      | None => Some x
      | Some v => a <-? enc_field wr d (pr_kind r) v ;; Some (N.lor (N.shiftl 1 (pr_bit r)) (fst x), a ++ snd x)
      end
    end.

  (* WriteContentHeader *)
  Definition enc_header (h : header) : option bytes :=
    x <-? enc_props pw (env_of_props pf (h_props h)) ;;
    Some (enc_short (h_class h) ++ enc_short (h_weight h) ++ enc_longlong (h_body_size h) ++
          enc_short (fst x) ++ snd x).

  Fixpoint wf_props (fields : list (string * fkind)) (ps : list (option mval)) : bool :=
    match fields, ps with
    | [], [] => true
    | f :: ft, p :: pt =>
      match p with Some v => wf_mval rd wr d (snd f) v | None => true end && wf_props ft pt
    | _, _ => false
    end.
  Definition wf_header (h : header) : bool :=
    (h_class h <? 2 ^ 16) && (h_weight h <? 2 ^ 16) && (h_body_size h <? 2 ^ 64) && wf_props pf (h_props h).
End Header.

Definition prop_row_eqb (a b : prop_row) : bool :=
  (pr_bit a =? pr_bit b) && String.eqb (pr_name a) (pr_name b) && fkind_eqb (pr_kind a) (pr_kind b).

(* the property-list description round-trips: read rows = write rows, flag bits distinct and below 16,
   every row is a struct field of that kind (never a bit), every struct field has a row, names distinct *)
Definition wf_props_desc (pf : list (string * fkind)) (pr pw : list prop_row) : bool :=
  list_eqb prop_row_eqb pr pw &&
  forallb (fun r => (pr_bit r <? 16) && negb (fkind_eqb (pr_kind r) KBit) && field_in pf (pr_name r) (pr_kind r)) pr &&
  N_nodup (map pr_bit pr) &&
  str_nodup (map pr_name pr) &&
  str_nodup (map fst pf) &&
  forallb (fun f => existsb (fun r => String.eqb (pr_name r) (fst f)) pr) pf.
