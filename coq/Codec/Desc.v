(* Vocabulary of the GENERATED descriptions (Codec/gen/*.v are written by
   /verif/translator/cmd/codec in these terms).  Definitions only. *)
From Coq Require Import List String NArith Bool.
Import ListNotations.

(* ---- method arguments (amqp/methods_generated.go, protocol XML) ---- *)
Inductive fkind := KOctet | KShort | KLong | KLonglong | KShortstr | KLongstr | KTable | KBit | KTimestamp.

(* what a generated Read method does, statement by statement *)
Inductive rstep :=
| RField (name : string) (k : fkind)     (* method.F, err = ReadK(reader[, proto]); if err != nil { return err } *)
| RBitsOctet                             (* bits, err := ReadOctet(reader); if err != nil { return err } *)
| RBit (name : string) (idx : N).        (* method.F = bits&(1<<idx) != 0 *)

(* what a generated Write method does *)
Inductive wstep :=
| WField (name : string) (k : fkind)     (* if err = WriteK(writer, method.F[, proto]); err != nil { return err } *)
| WBitsInit                              (* var bits byte *)
| WBitSet (name : string) (idx : N)      (* if method.F { bits |= 1 << idx } *)
| WBitsFlush.                            (* if err = WriteOctet(writer, bits); err != nil { return err } *)

Record method_desc := {
  m_name : string; m_class : N; m_id : N; m_sync : bool;
  m_from_spec : bool;                      (* true: the Go shape was not understood, description taken from the grammar *)
  m_fields : list (string * fkind);        (* struct fields, kind from the Go type *)
  m_read : list rstep;
  m_write : list wstep }.

(* ---- the grammar (protocol/amqp0-9-1.extended.xml) ---- *)
Record spec_method := {
  sm_go_name : string; sm_class_name : string; sm_name : string; sm_class : N; sm_id : N;
  sm_sync : bool; sm_content : bool;
  sm_server : bool;                        (* <chassis name="server">: the server accepts it = a client may send it *)
  sm_client : bool;
  sm_responses : list string;
  sm_fields : list (string * fkind) }.

(* ---- field-table values (amqp/readers_writers.go) ---- *)
Inductive dialect := D091 | DRabbit.

(* Go dynamic type of a decoded / encodable table value *)
Inductive gotype :=
| TBool | TInt8 | TUint8 | TInt16 | TUint16 | TInt32 | TUint32 | TInt64 | TUint64
| TFloat32 | TFloat64 | TDecimal | TString | TBytes | TTime | TArray | TTablePtr | TTableVal | TNil.

(* how the payload after the tag byte is laid out *)
Inductive wire :=
| WBoolOctet                 (* one octet, != 0 / 1 or 0 *)
| WFixed (nbytes : nat)      (* binary.Read / binary.Write of a fixed-width number, big-endian *)
| WDecimal                   (* scale octet, value long *)
| WShortstr | WLongstr | WTimestamp
| WArray (d : dialect)       (* longstr holding values of dialect d *)
| WTable (d : dialect)       (* longstr holding (shortstr key, value) pairs of dialect d *)
| WNothing.

Record reader_row := { rr_tag : N; rr_wire : wire; rr_type : gotype;
                       rr_inverted : bool (* the err test after the read is `err == nil` (defect F08) *) }.
Record writer_row := { wr_type : gotype; wr_tag : N; wr_wire : wire;
                       wr_inverted : bool (* payload written under `err != nil` *) }.

(* how a reader sizes the buffer for a length that comes from the wire *)
Inductive alloc_style :=
| AllocWire                  (* make([]byte, length) before the data is there *)
| AllocChunked (cap : N).    (* at most cap bytes ahead of the data that has arrived *)
Inductive frame_alloc_style :=
| FrameWirePlus1Wrap32       (* make([]byte, payloadSize+1) in uint32: 0xFFFFFFFF wraps to 0, then payload[0:size] panics *)
| FrameChunked (cap : N).

Definition fkind_eqb (a b : fkind) : bool :=
  match a, b with
  | KOctet, KOctet | KShort, KShort | KLong, KLong | KLonglong, KLonglong | KShortstr, KShortstr
  | KLongstr, KLongstr | KTable, KTable | KBit, KBit | KTimestamp, KTimestamp => true
  | _, _ => false
  end.

Definition dialect_eqb (a b : dialect) : bool :=
  match a, b with D091, D091 | DRabbit, DRabbit => true | _, _ => false end.

Definition gotype_eqb (a b : gotype) : bool :=
  match a, b with
  | TBool, TBool | TInt8, TInt8 | TUint8, TUint8 | TInt16, TInt16 | TUint16, TUint16 | TInt32, TInt32
  | TUint32, TUint32 | TInt64, TInt64 | TUint64, TUint64 | TFloat32, TFloat32 | TFloat64, TFloat64
  | TDecimal, TDecimal | TString, TString | TBytes, TBytes | TTime, TTime | TArray, TArray
  | TTablePtr, TTablePtr | TTableVal, TTableVal | TNil, TNil => true
  | _, _ => false
  end.

Definition wire_eqb (a b : wire) : bool :=
  match a, b with
  | WBoolOctet, WBoolOctet | WDecimal, WDecimal | WShortstr, WShortstr | WLongstr, WLongstr
  | WTimestamp, WTimestamp | WNothing, WNothing => true
  | WFixed x, WFixed y => Nat.eqb x y
  | WArray x, WArray y | WTable x, WTable y => dialect_eqb x y
  | _, _ => false
  end.
