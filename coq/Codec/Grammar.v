(* The field-value grammar, written from the specifications and NOT from /repo:
     strict dialect   AMQP 0-9-1 specification, section 4.2.1 (formal protocol grammar, field-value)
     RabbitMQ dialect RabbitMQ's "AMQP 0-9-1 Errata", section 3 (field types), as implemented by the
                      RabbitMQ servers and the official clients (amqp091-go read.go/write.go, Java client)
   The regenerated tag tables of the code (Codec/gen/TagsGen.v) are compared with these.
   Definitions only. *)
From Coq Require Import List NArith Bool.
Import ListNotations.
From GMQ Require Import Base.Bytes Codec.Desc.
Open Scope N_scope.

(* tag octet, layout of what follows it *)
Definition grammar_row := (N * wire)%type.

Definition grammar_091 : list grammar_row := [
  (116 (* t *), WBoolOctet);      (*  boolean          *)
  (98  (* b *), WFixed 1);        (*  short-short-int  *)
  (66  (* B *), WFixed 1);        (*  short-short-uint *)
  (85  (* U *), WFixed 2);        (*  short-int        *)
  (117 (* u *), WFixed 2);        (*  short-uint       *)
  (73  (* I *), WFixed 4);        (*  long-int         *)
  (105 (* i *), WFixed 4);        (*  long-uint        *)
  (76  (* L *), WFixed 8);        (*  long-long-int    *)
  (108 (* l *), WFixed 8);        (*  long-long-uint   *)
  (102 (* f *), WFixed 4);        (*  float            *)
  (100 (* d *), WFixed 8);        (*  double           *)
  (68  (* D *), WDecimal);        (*  decimal-value = scale octet, long-uint *)
  (115 (* s *), WShortstr);       (*  short-string     *)
  (83  (* S *), WLongstr);        (*  long-string      *)
  (65  (* A *), WArray D091);     (*  field-array = long-int *field-value *)
  (84  (* T *), WTimestamp);      (*  timestamp = long-long-uint *)
  (70  (* F *), WTable D091);     (*  field-table      *)
  (86  (* V *), WNothing)         (*  no field         *)
].

Definition grammar_rabbit : list grammar_row := [
  (116 (* t *), WBoolOctet);
  (98  (* b *), WFixed 1);        (*  signed 8-bit     *)
  (66  (* B *), WFixed 1);        (*  unsigned 8-bit   *)
  (115 (* s *), WFixed 2);        (*  signed 16-bit (NOT a short string) *)
  (73  (* I *), WFixed 4);        (*  signed 32-bit    *)
  (108 (* l *), WFixed 8);        (*  signed 64-bit (NOT unsigned) *)
  (102 (* f *), WFixed 4);
  (100 (* d *), WFixed 8);
  (68  (* D *), WDecimal);
  (83  (* S *), WLongstr);        (*  long string      *)
  (65  (* A *), WArray DRabbit);  (*  field array      *)
  (84  (* T *), WTimestamp);
  (70  (* F *), WTable DRabbit);
  (120 (* x *), WLongstr);        (*  byte array       *)
  (86  (* V *), WNothing)
].

Definition grammar_of (d : dialect) : list grammar_row :=
  match d with D091 => grammar_091 | DRabbit => grammar_rabbit end.

Definition grammar_lookup (g : list grammar_row) (tag : N) : option wire :=
  match find (fun r => fst r =? tag) g with Some r => Some (snd r) | None => None end.

(* the code's tables speak the grammar:
   - every tag the reader accepts is a grammar tag with the grammar's layout (nothing is misread),
   - every grammar tag is accepted by the reader (what a conforming peer sends is understood),
   - every tag the writer emits is a grammar tag with the grammar's layout (what is sent is conforming) *)
Definition tags_match_grammar (rd : list reader_row) (wr : list writer_row) (g : list grammar_row) : bool :=
  forallb (fun r => match grammar_lookup g (rr_tag r) with Some w => wire_eqb w (rr_wire r) | None => false end) rd &&
  forallb (fun row => existsb (fun r => (rr_tag r =? fst row) && wire_eqb (rr_wire r) (snd row)) rd) g &&
  forallb (fun w => match grammar_lookup g (wr_tag w) with Some x => wire_eqb x (wr_wire w) | None => false end) wr.

(* ---- the grammar as full tables (tag <-> Go type), so that the generic interpreters of Codec/Value.v can be
        run on the grammar itself: used only to search for a concrete value / byte string on which the
        implementation deviates from the grammar when an obligation over the regenerated tables fails ---- *)
Definition gr (tag : N) (w : wire) (t : gotype) : reader_row := {| rr_tag := tag; rr_wire := w; rr_type := t; rr_inverted := false |}.
Definition gw (t : gotype) (tag : N) (w : wire) : writer_row := {| wr_type := t; wr_tag := tag; wr_wire := w; wr_inverted := false |}.

Definition g_reader_091 : list reader_row := [
  gr 116 WBoolOctet TBool; gr 98 (WFixed 1) TInt8; gr 66 (WFixed 1) TUint8; gr 85 (WFixed 2) TInt16; gr 117 (WFixed 2) TUint16;
  gr 73 (WFixed 4) TInt32; gr 105 (WFixed 4) TUint32; gr 76 (WFixed 8) TInt64; gr 108 (WFixed 8) TUint64;
  gr 102 (WFixed 4) TFloat32; gr 100 (WFixed 8) TFloat64; gr 68 WDecimal TDecimal; gr 115 WShortstr TString; gr 83 WLongstr TBytes;
  gr 65 (WArray D091) TArray; gr 84 WTimestamp TTime; gr 70 (WTable D091) TTablePtr; gr 86 WNothing TNil].
Definition g_reader_rabbit : list reader_row := [
  gr 116 WBoolOctet TBool; gr 98 (WFixed 1) TInt8; gr 66 (WFixed 1) TUint8; gr 115 (WFixed 2) TInt16; gr 73 (WFixed 4) TInt32;
  gr 108 (WFixed 8) TInt64; gr 102 (WFixed 4) TFloat32; gr 100 (WFixed 8) TFloat64; gr 68 WDecimal TDecimal; gr 83 WLongstr TString;
  gr 65 (WArray DRabbit) TArray; gr 84 WTimestamp TTime; gr 70 (WTable DRabbit) TTablePtr; gr 120 WLongstr TBytes; gr 86 WNothing TNil].
Definition writer_of_readers (rs : list reader_row) (d : dialect) : list writer_row :=
  map (fun r => gw (rr_type r) (rr_tag r) (rr_wire r)) rs ++ [gw TTableVal 70 (WTable d)].
Definition g_rd (d : dialect) : list reader_row := match d with D091 => g_reader_091 | DRabbit => g_reader_rabbit end.
Definition g_wr (d : dialect) : list writer_row := writer_of_readers (g_rd d) d.
