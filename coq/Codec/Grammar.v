(* The field-value grammar, written from the specifications and NOT from /repo:
     strict dialect   AMQP 0-9-1 specification, section 4.2.1 (formal protocol grammar, field-value)
     RabbitMQ dialect RabbitMQ's "AMQP 0-9-1 Errata", section 3 (field types), as implemented by the
                      RabbitMQ servers and the official clients (amqp091-go read.go/write.go, Java client)
   The regenerated tag tables of the code (Codec/gen/TagsGen.v) are compared with these.
   Definitions only. *)
From Coq Require Import List NArith Bool.
Import ListNotations.
From GMQ Require Import Base.Bytes Codec.Desc.
Open Scope N_scope.

(* tag octet, layout of what follows it *)
Definition grammar_row := (N * wire)%type.

Definition grammar_091 : list grammar_row := [
  (116 (* t *), WBoolOctet);      (*  boolean          *)
  (98  (* b *), WFixed 1);        (*  short-short-int  *)
  (66  (* B *), WFixed 1);        (*  short-short-uint *)
  (85  (* U *), WFixed 2);        (*  short-int        *)
  (117 (* u *), WFixed 2);        (*  short-uint       *)
  (73  (* I *), WFixed 4);        (*  long-int         *)
  (105 (* i *), WFixed 4);        (*  long-uint        *)
  (76  (* L *), WFixed 8);        (*  long-long-int    *)
  (108 (* l *), WFixed 8);        (*  long-long-uint   *)
  (102 (* f *), WFixed 4);        (*  float            *)
  (100 (* d *), WFixed 8);        (*  double           *)
  (68  (* D *), WDecimal);        (*  decimal-value = scale octet, long-uint *)
  (115 (* s *), WShortstr);       (*  short-string     *)
  (83  (* S *), WLongstr);        (*  long-string      *)
  (65  (* A *), WArray D091);     (*  field-array = long-int *field-value *)
  (84  (* T *), WTimestamp);      (*  timestamp = long-long-uint *)
  (70  (* F *), WTable D091);     (*  field-table      *)
  (86  (* V *), WNothing)         (*  no field         *)
].

Definition grammar_rabbit : list grammar_row := [
  (116 (* t *), WBoolOctet);
  (98  (* b *), WFixed 1);        (*  signed 8-bit     *)
  (66  (* B *), WFixed 1);        (*  unsigned 8-bit   *)
  (115 (* s *), WFixed 2);        (*  signed 16-bit (NOT a short string) *)
  (73  (* I *), WFixed 4);        (*  signed 32-bit    *)
  (108 (* l *), WFixed 8);        (*  signed 64-bit (NOT unsigned) *)
  (102 (* f *), WFixed 4);
  (100 (* d *), WFixed 8);
  (68  (* D *), WDecimal);
  (83  (* S *), WLongstr);        (*  long string      *)
  (65  (* A *), WArray DRabbit);  (*  field array      *)
  (84  (* T *), WTimestamp);
  (70  (* F *), WTable DRabbit);
  (120 (* x *), WLongstr);        (*  byte array       *)
  (86  (* V *), WNothing)
].

Definition grammar_of (d : dialect) : list grammar_row :=
  match d with D091 => grammar_091 | DRabbit => grammar_rabbit end.

Definition grammar_lookup (g : list grammar_row) (tag : N) : option wire :=
  match find (fun r => fst r =? tag) g with Some r => Some (snd r) | None => None end.

(* the code's tables speak the grammar:
   - every tag the reader accepts is a grammar tag with the grammar's layout (nothing is misread),
   - every grammar tag is accepted by the reader (what a conforming peer sends is understood),
   - every tag the writer emits is a grammar tag with the grammar's layout (what is sent is conforming) *)
Definition tags_match_grammar (rd : list reader_row) (wr : list writer_row) (g : list grammar_row) : bool :=
  forallb (fun r => match grammar_lookup g (rr_tag r) with Some w => wire_eqb w (rr_wire r) | None => false end) rd &&
  forallb (fun row => existsb (fun r => (rr_tag r =? fst row) && wire_eqb (rr_wire r) (snd row)) rd) g &&
  forallb (fun w => match grammar_lookup g (wr_tag w) with Some x => wire_eqb x (wr_wire w) | None => false end) wr.
