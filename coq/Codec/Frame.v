(* Frames: ReadFrame / WriteFrame of /repo/amqp/readers_writers.go.  Definitions only. *)
From Coq Require Import List NArith Bool.
Import ListNotations.
From GMQ Require Import Base.Bytes Codec.Desc Codec.Prim.
Open Scope N_scope.

Record frame := { f_type : N; f_channel : N; f_payload : bytes }.

Section Frame.
  Variable fa : frame_alloc_style.   (* how ReadFrame sizes its buffer: regenerated from the source *)
  Variable frame_end : N.            (* amqp.FrameEnd *)

  Definition dec_frame (bs : bytes) : result (frame * bytes) :=
    t <- dec_octet bs ;; c <- dec_short (snd t) ;; s <- dec_long (snd c) ;;
    let size := fst s in
    let r := snd s in
    let finish (r : bytes) : result (frame * bytes) :=
      (* payload = buf[0:size]; buf[size] must be the frame-end octet *)
      match takeN size r with
      | Some (p, e :: r') =>
        if e =? frame_end then Ok ({| f_type := fst t; f_channel := fst c; f_payload := p |}, r') else Err
      | _ => Err
      end in
    match fa with
    | FrameWirePlus1Wrap32 =>
      (* var payload = make([]byte, payloadSize+1)   -- uint32 arithmetic
         io.ReadFull(r, payload); frame.Payload = payload[0:payloadSize] *)
      let n := (size + 1) mod 2 ^ 32 in
      if blen r <? n then Alloc n
      else if size =? 2 ^ 32 - 1 then Panic        (* payload has length 0: slice bounds out of range *)
      else finish r
    | FrameChunked cap =>
      (* readBytes(r, uint64(payloadSize)+1): at most cap bytes ahead of the data *)
      if blen r <? size + 1 then Alloc (N.min (size + 1) cap)
      else finish r
    end.

  (* WriteFrame: type, channel, WriteLongstr(payload), frame end *)
  Definition enc_frame (f : frame) : bytes :=
    enc_octet (f_type f) ++ enc_short (f_channel f) ++ enc_longstr (f_payload f) ++ [frame_end].

  Definition wf_frame (f : frame) : bool :=
    (f_type f <? 2 ^ 8) && (f_channel f <? 2 ^ 16) && (blen (f_payload f) <? 2 ^ 32 - 1).
End Frame.
