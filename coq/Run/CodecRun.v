(* Case runner for the codec correspondence: evaluates the model (instantiated
   with the regenerated tables, Codec/Codec.v) on the byte strings and values the
   harness ran through the real Go code and reports the indices that differ.
   Definitions only; must build even when a proof breaks. *)
From Coq Require Import List String Ascii NArith Bool.
Import ListNotations.
From GMQ Require Import Base.Bytes Codec.Desc Codec.Prim Codec.Value Codec.MethodCodec Codec.Header Codec.Frame Codec.Records Codec.SpecCheck Codec.Grammar Codec.Codec.
From GMQ Require Import Codec.gen.MethodsGen Codec.gen.TagsGen Codec.gen.ConstGen Codec.gen.SpecGen Codec.gen.RecordsGen.
Open Scope N_scope.

(* ---- hex strings ---- *)
Definition hexval (c : ascii) : N :=
  let n := N_of_ascii c in
  if (48 <=? n) && (n <=? 57) then n - 48
  else if (97 <=? n) && (n <=? 102) then n - 87
  else if (65 <=? n) && (n <=? 70) then n - 55
  else 0.
Fixpoint H (s : string) : bytes :=
  match s with
  | String a (String b t) => (hexval a * 16 + hexval b) :: H t
  | _ => []
  end.

(* ---- constructors used by the harness' canonical text ---- *)
Definition mkH (c w s : N) (ps : list (option mval)) : header :=
  {| h_class := c; h_weight := w; h_body_size := s; h_props := ps |}.
Definition mkF (t c : N) (p : bytes) : frame := {| f_type := t; f_channel := c; f_payload := p |}.
Definition mkMsg (i : N) (h : header) (ex rk : bytes) (b : list frame) (c : N) : message :=
  {| msg_id := i; msg_header := h; msg_exchange := ex; msg_rk := rk; msg_body := b; msg_count := c |}.
Definition mkQ (n : bytes) (a : bool) : queue_rec := {| q_name := n; q_autodelete := a |}.
Definition mkE (n : bytes) (t : N) : exchange_rec := {| ex_name := n; ex_type := t |}.
Definition mkB (q e k : bytes) (a : table) (t : bool) : binding_rec :=
  {| b_queue := q; b_exchange := e; b_rk := k; b_args := a; b_topic := t |}.

Inductive cval :=
| CT (t : table) | CM (name : string) (vals : list mval) | CH (h : header) | CF (f : frame)
| CMsg (m : message) | CQ (q : queue_rec) | CE (e : exchange_rec) | CB (b : binding_rec) | CS (s : bytes).

Inductive kind := KdTable | KdMethod | KdHeader | KdFrame | KdMessage | KdQueue | KdExchange | KdBinding | KdShortstr | KdLongstr.

(* ---- canonical form: tables sorted by key (a Go map has no order) ---- *)
Fixpoint bytes_leb (a b : bytes) : bool :=
  match a, b with
  | [], _ => true
  | _ :: _, [] => false
  | x :: a', y :: b' => if x <? y then true else if y <? x then false else bytes_leb a' b'
  end.
Fixpoint tinsert (e : bytes * fval) (l : table) : table :=
  match l with
  | [] => [e]
  | h :: t => if bytes_leb (fst e) (fst h) then e :: l else h :: tinsert e t
  end.
Definition tsort (l : table) : table := fold_right tinsert [] l.

Fixpoint canon_val (v : fval) : fval :=
  match v with
  | VArr l => VArr (map canon_val l)
  | VTab t kv => VTab t (tsort (map (fun e => (fst e, canon_val (snd e))) kv))
  | other => other
  end.
Definition canon_table (kv : table) : table := tsort (map (fun e => (fst e, canon_val (snd e))) kv).
Definition canon_mval (v : mval) : mval := match v with MTab t => MTab (canon_table t) | o => o end.
Definition canon_header (h : header) : header :=
  mkH (h_class h) (h_weight h) (h_body_size h) (map (option_map canon_mval) (h_props h)).
Definition canon_cval (c : cval) : cval :=
  match c with
  | CT t => CT (canon_table t)
  | CM n vs => CM n (map canon_mval vs)
  | CH h => CH (canon_header h)
  | CMsg m => CMsg (mkMsg (msg_id m) (canon_header (msg_header m)) (msg_exchange m) (msg_rk m) (msg_body m) (msg_count m))
  | CB b => CB (mkB (b_queue b) (b_exchange b) (b_rk b) (canon_table (b_args b)) (b_topic b))
  | o => o
  end.

(* ---- equality ---- *)
Fixpoint fval_eqb (a b : fval) {struct a} : bool :=
  match a, b with
  | VNum t n, VNum t' n' => gotype_eqb t t' && (n =? n')
  | VDec s x, VDec s' x' => (s =? s') && (x =? x')
  | VStr t s, VStr t' s' => gotype_eqb t t' && bytes_eqb s s'
  | VArr l, VArr l' =>
    (fix go (l : list fval) (l' : list fval) : bool :=
       match l, l' with
       | [], [] => true
       | x :: t, y :: t' => fval_eqb x y && go t t'
       | _, _ => false
       end) l l'
  | VTab t kv, VTab t' kv' =>
    gotype_eqb t t' &&
    (fix go (l : table) (l' : table) : bool :=
       match l, l' with
       | [], [] => true
       | x :: t, y :: t' => bytes_eqb (fst x) (fst y) && fval_eqb (snd x) (snd y) && go t t'
       | _, _ => false
       end) kv kv'
  | VNil, VNil => true
  | _, _ => false
  end.
Definition table_eqb (a b : table) : bool :=
  list_eqb (fun x y => bytes_eqb (fst x) (fst y) && fval_eqb (snd x) (snd y)) a b.
Definition mval_eqb (a b : mval) : bool :=
  match a, b with
  | MNum n, MNum n' => n =? n'
  | MBool x, MBool y => Bool.eqb x y
  | MStr s, MStr s' => bytes_eqb s s'
  | MTab t, MTab t' => table_eqb t t'
  | _, _ => false
  end.
Definition omval_eqb (a b : option mval) : bool :=
  match a, b with Some x, Some y => mval_eqb x y | None, None => true | _, _ => false end.
Definition header_eqb (a b : header) : bool :=
  (h_class a =? h_class b) && (h_weight a =? h_weight b) && (h_body_size a =? h_body_size b) &&
  list_eqb omval_eqb (h_props a) (h_props b).
Definition frame_eqb (a b : frame) : bool :=
  (f_type a =? f_type b) && (f_channel a =? f_channel b) && bytes_eqb (f_payload a) (f_payload b).
Definition cval_eqb (a b : cval) : bool :=
  match a, b with
  | CT x, CT y => table_eqb x y
  | CM n x, CM n' y => String.eqb n n' && list_eqb mval_eqb x y
  | CH x, CH y => header_eqb x y
  | CF x, CF y => frame_eqb x y
  | CMsg x, CMsg y =>
    (msg_id x =? msg_id y) && header_eqb (msg_header x) (msg_header y) && bytes_eqb (msg_exchange x) (msg_exchange y) &&
    bytes_eqb (msg_rk x) (msg_rk y) && list_eqb frame_eqb (msg_body x) (msg_body y) && (msg_count x =? msg_count y)
  | CQ x, CQ y => bytes_eqb (q_name x) (q_name y) && Bool.eqb (q_autodelete x) (q_autodelete y)
  | CE x, CE y => bytes_eqb (ex_name x) (ex_name y) && (ex_type x =? ex_type y)
  | CB x, CB y =>
    bytes_eqb (b_queue x) (b_queue y) && bytes_eqb (b_exchange x) (b_exchange y) && bytes_eqb (b_rk x) (b_rk y) &&
    table_eqb (b_args x) (b_args y) && Bool.eqb (b_topic x) (b_topic y)
  | CS x, CS y => bytes_eqb x y
  | _, _ => false
  end.

(* ---- the model on one input ---- *)
Definition lift {A} (f : A -> cval) (r : result (A * bytes)) : result (cval * bytes) :=
  match r with
  | Ok (a, rest) => Ok (canon_cval (f a), rest)
  | Err => Err | Panic => Panic | Alloc n => Alloc n | Fuel => Fuel
  end.

(* the tables an instance of the model is built from *)
Record tables := {
  t_rd : dialect -> list reader_row; t_wr : dialect -> list writer_row;
  t_methods : list method_desc; t_dispatch : list (N * N * string);
  t_pf : list (string * fkind); t_pr : list prop_row; t_pw : list prop_row }.

(* what the code does (regenerated from /repo) *)
Definition T_code : tables :=
  {| t_rd := rd_gen; t_wr := wr_gen; t_methods := all_methods; t_dispatch := read_dispatch;
     t_pf := props_fields; t_pr := props_read; t_pw := props_write |}.
(* what the specifications say (protocol XML, Codec/Grammar.v): used for the failing-input search *)
Definition T_grammar : tables :=
  {| t_rd := g_rd; t_wr := g_wr; t_methods := map spec_desc spec_methods; t_dispatch := spec_dispatch spec_methods;
     t_pf := spec_basic_properties; t_pr := spec_prop_rows spec_basic_properties 15; t_pw := spec_prop_rows spec_basic_properties 15 |}.

Section Instance.
  Variable T : tables.

  Definition decode_any (k : kind) (d : dialect) (bs : bytes) : result (cval * bytes) :=
    match k with
    | KdTable => lift CT (dec_table longstr_alloc (t_rd T) d bs)
    | KdMethod => lift (fun x => CM (fst x) (snd x))
                       (match dec_method_frame longstr_alloc (t_rd T) d (t_methods T) (t_dispatch T) bs with
                        | Ok (n, vs, r) => Ok ((n, vs), r)
                        | Err => Err | Panic => Panic | Alloc n => Alloc n | Fuel => Fuel end)
    | KdHeader => lift CH (dec_header longstr_alloc (t_rd T) d (t_pf T) (t_pr T) bs)
    | KdFrame => lift CF (decode_frame bs)
    | KdMessage => lift CMsg (dec_message longstr_alloc frame_alloc c_FrameEnd (t_rd T) d (t_pf T) (t_pr T) message_trailer_read bs)
    | KdQueue => lift CQ (dec_queue bs)
    | KdExchange => lift CE (dec_exchange bs)
    | KdBinding => lift CB (dec_binding longstr_alloc (t_rd T) d bs)
    | KdShortstr => lift CS (dec_shortstr bs)
    | KdLongstr => lift CS (decode_longstr bs)
    end.

  Definition encode_any (d : dialect) (c : cval) : option bytes :=
    match c with
    | CT t => enc_table (t_wr T) d t
    | CM n vs => match find_method (t_methods T) n with Some m => enc_method_frame (t_wr T) d m vs | None => None end
    | CH h => enc_header (t_wr T) d (t_pf T) (t_pw T) h
    | CF f => Some (encode_frame f)
    | CMsg m => enc_message c_FrameEnd (t_wr T) d (t_pf T) (t_pw T) message_trailer_written m
    | CQ q => Some (enc_queue q)
    | CE e => Some (enc_exchange e)
    | CB b => enc_binding (t_wr T) d b
    | CS s => None   (* decided by the kind: see ecase_ok *)
    end.
End Instance.

(* ---- cases ---- *)
(* decode case: what the Go decoder did with these bytes *)
Inductive dexp := XOk (v : cval) (rest : option N) | XErr | XPanic.
Definition dcase := (kind * dialect * string * dexp)%type.

Definition dcase_ok (T : tables) (c : dcase) : bool :=
  let '(k, d, hx, e) := c in
  match decode_any T k d (H hx), e with
  | Ok (v, r), XOk v' rest =>
    cval_eqb v (canon_cval v') && match rest with Some n => blen r =? n | None => true end
  | Err, XErr => true
  | Alloc _, XErr => true           (* an error after an allocation is an error to the caller *)
  | Panic, XPanic => true
  | _, _ => false
  end.

(* allocation the model attributes to a case (0 when none) *)
Definition dcase_alloc (c : dcase) : N :=
  let '(k, d, hx, e) := c in
  match decode_any T_code k d (H hx) with Alloc n => n | _ => 0 end.

(* encode case: the Go encoder's output for this value (None: it returned an error) *)
Definition ecase := (kind * dialect * cval * option string * bool)%type.

Definition bytes_sum (b : bytes) : N := fold_right N.add 0 b.

Definition encode_case (T : tables) (c : ecase) : option bytes :=
  let '(k, d, v, go, exact) := c in
  match k, v with
  | KdShortstr, CS s => Some (enc_shortstr s)
  | KdLongstr, CS s => Some (enc_longstr s)
  | _, _ => encode_any T d v
  end.

Definition ecase_ok (T : tables) (c : ecase) : bool :=
  let '(k, d, v, go, exact) := c in
  match encode_case T c, go with
  | None, None => true
  | Some m, Some hx =>
    if exact then bytes_eqb m (H hx)
    else (blen m =? blen (H hx)) && (bytes_sum m =? bytes_sum (H hx))   (* same bytes up to the order of map entries *)
  | _, _ => false
  end.

Fixpoint mismatches_from {A} (ok : A -> bool) (i : nat) (cs : list A) : list nat :=
  match cs with
  | [] => []
  | c :: t => if ok c then mismatches_from ok (S i) t else i :: mismatches_from ok (S i) t
  end.
Definition d_mismatches (cs : list dcase) : list nat := mismatches_from (dcase_ok T_code) 0 cs.
Definition e_mismatches (cs : list ecase) : list nat := mismatches_from (ecase_ok T_code) 0 cs.
(* against the specifications instead of the regenerated tables *)
Definition d_mismatches_grammar (cs : list dcase) : list nat := mismatches_from (dcase_ok T_grammar) 0 cs.
Definition e_mismatches_grammar (cs : list ecase) : list nat := mismatches_from (ecase_ok T_grammar) 0 cs.
Fixpoint allocs_from (i : nat) (cs : list dcase) : list (nat * N) :=
  match cs with
  | [] => []
  | c :: t => match dcase_alloc c with 0 => allocs_from (S i) t | n => (i, n) :: allocs_from (S i) t end
  end.
Definition d_allocs (cs : list dcase) : list (nat * N) := allocs_from 0 cs.
