(* Case runner for the stores correspondence (srvstorage and msgstorage): evaluates the
   models on the operation lists the implementation ran and reports the indices of the
   cases whose outputs differ.  Definitions only (must build even when proofs break).

   An output atom is (tag, byte strings, numbers):
     1 set k [id;data]   2 del k   3 relay k [id]   4 msg [id;data]   5 count [n]   6 len [n]
     7 panic             8 engine entry k [id;data]  9 pending k [which: 1 add 2 update 3 del]
     20 queue name [autodel;durable;exclusive;conn]  21 exchange name [type;durable;autodel;internal;system]
     22 binding q e k args [topic;any]               23 vhost name [system]   24 engine entry k v *)
From Coq Require Import List NArith Bool.
From GMQ Require Import Store.KeyFmt Store.KV Store.SrvStore Store.MsgStore.
Import ListNotations.
Open Scope N_scope.

Definition atom := (N * list bytes * list N)%type.

Fixpoint list_eqb {A} (eqb : A -> A -> bool) (l1 l2 : list A) : bool :=
  match l1, l2 with
  | [], [] => true
  | x :: t1, y :: t2 => eqb x y && list_eqb eqb t1 t2
  | _, _ => false
  end.

Definition atom_eqb (a b : atom) : bool :=
  let '(t1, b1, n1) := a in let '(t2, b2, n2) := b in
  N.eqb t1 t2 && list_eqb bytes_eqb b1 b2 && list_eqb N.eqb n1 n2.

Definition out_eqb (a b : list atom) : bool := list_eqb atom_eqb a b.

Definition nb (b : bool) : N := if b then 1 else 0.

Fixpoint mismatches_from {A} (ok : A -> bool) (i : nat) (cs : list A) : list nat :=
  match cs with
  | [] => []
  | c :: t => if ok c then mismatches_from ok (S i) t else i :: mismatches_from ok (S i) t
  end.

(* ------------------------------------------------------------------ msgstorage *)
Inductive mrop := RL (l : mlabel) | RDump | RPend.

(* stable insertion sort of batch operations by key *)
Fixpoint insert_op (o : bop msg) (l : list (bop msg)) : list (bop msg) :=
  match l with
  | [] => [o]
  | x :: t => if kltb (bop_key o) (bop_key x) then o :: l else x :: insert_op o t
  end.
Definition sort_ops (l : list (bop msg)) : list (bop msg) := fold_left (fun acc o => insert_op o acc) l [].

Definition atom_of_op (o : bop msg) : atom :=
  match o with
  | BSet k m => (1, [k], [m_id m; m_data m])
  | BDel k => (2, [k], [])
  end.

Definition atoms_of_event (e : mevent) : list atom :=
  match e with
  | EvBatch ops => map atom_of_op (sort_ops ops)
  | EvRelay k m => [(3, [k], [m_id m])]
  | EvCancelled _ => []      (* ghost *)
  | EvMsgs l n => map (fun m => (4, [], [m_id m; m_data m])) l ++ [(5, [], [n])]
  | EvLen n => [(6, [], [n])]
  | EvPanic => [(7, [], [])]
  end.

(* relays are compared as key-sorted lists (the order of Go's map/slice iteration is not modelled): every maximal
   run of consecutive relay atoms is sorted by key *)
Definition atom_key (a : atom) : key := match a with (_, k :: _, _) => k | _ => [] end.
Definition is_relay (a : atom) : bool := match a with (t, _, _) => N.eqb t 3 end.
Fixpoint insert_atom (a : atom) (l : list atom) : list atom :=
  match l with
  | [] => [a]
  | x :: t => if kltb (atom_key a) (atom_key x) then a :: l else x :: insert_atom a t
  end.
Fixpoint sort_relay_runs (run : list atom) (l : list atom) : list atom :=
  match l with
  | [] => run
  | a :: t => if is_relay a then sort_relay_runs (insert_atom a run) t else run ++ a :: sort_relay_runs [] t
  end.

Definition ms_rstep (st : mstore) (o : mrop) : mstore * list atom :=
  match o with
  | RL l => let '(s, ev) := ms_step st l in (s, sort_relay_runs [] (flat_map atoms_of_event ev))
  | RDump => (st, map (fun e => (8, [fst e], [m_id (snd e); m_data (snd e)])) (ms_db st))
  | RPend => (st, map (fun e => (9, [fst e], [1])) (ms_add st) ++ map (fun e => (9, [fst e], [2])) (ms_upd st)
                  ++ map (fun e => (9, [fst e], [3])) (ms_del st))
  end.

Fixpoint ms_routs (st : mstore) (ops : list mrop) : list (list atom) :=
  match ops with
  | [] => []
  | o :: r => let '(s, a) := ms_rstep st o in a :: ms_routs s r
  end.

(* engine, confirm mode, ops, expected outputs *)
Definition ms_case := (engine * bool * list mrop * list (list atom))%type.

Definition ms_model_outs (c : ms_case) : list (list atom) :=
  let '(e, cm, ops, _) := c in ms_routs (ms_init e true cm) ops.

Definition ms_case_ok (c : ms_case) : bool :=
  let '(_, _, _, outs) := c in list_eqb out_eqb (ms_model_outs c) outs.

Definition ms_mismatches (cs : list ms_case) : list nat := mismatches_from ms_case_ok 0 cs.

(* ------------------------------------------------------------------ srvstorage *)
Inductive srop := SL (o : sop) | SGetV | SGetQ (v : bytes) | SGetE (v : bytes) | SGetB (v : bytes) | SDump.

Definition atom_of_queue (q : queue) : atom :=
  (20, [qu_name q], [nb (qu_autodelete q); nb (qu_durable q); nb (qu_exclusive q); qu_conn_id q]).
Definition atom_of_exchange (e : exchange) : atom :=
  (21, [ex_name e], [ex_type e; nb (ex_durable e); nb (ex_autodelete e); nb (ex_internal e); nb (ex_system e)]).
Definition atom_of_binding (b : binding) : atom :=
  (22, [bd_queue b; bd_exchange b; bd_key b; bd_args b], [nb (bd_topic b); nb (bd_match_any b)]).

Definition opt_atoms {A} (f : A -> atom) (r : option (list A)) : list atom :=
  match r with Some l => map f l | None => [(7, [], [])] end.

(* the Go map of GetVhosts, as a key-ordered list: later entries override *)
Definition vhost_atoms (r : option (list (bytes * bool))) : list atom :=
  match r with
  | None => [(7, [], [])]
  | Some l => map (fun e => (23, [fst e], [nb (snd e)])) (fold_left (fun acc e => kv_set acc (fst e) (snd e)) l [])
  end.

Definition srv_rstep (db : sdb) (o : srop) : sdb * list atom :=
  match o with
  | SL op => (srv_step db op, [])
  | SGetV => (db, vhost_atoms (srv_get_vhosts db))
  | SGetQ v => (db, opt_atoms atom_of_queue (srv_get_queues db v))
  | SGetE v => (db, opt_atoms atom_of_exchange (srv_get_exchanges db v))
  | SGetB v => (db, opt_atoms atom_of_binding (srv_get_bindings db v))
  | SDump => (db, map (fun e => (24, [fst e; snd e], [])) db)
  end.

Fixpoint srv_routs (db : sdb) (ops : list srop) : list (list atom) :=
  match ops with
  | [] => []
  | o :: r => let '(d, a) := srv_rstep db o in a :: srv_routs d r
  end.

Definition srv_case := (list srop * list (list atom))%type.
Definition srv_model_outs (c : srv_case) : list (list atom) := srv_routs [] (fst c).
Definition srv_case_ok (c : srv_case) : bool := list_eqb out_eqb (srv_model_outs c) (snd c).
Definition srv_mismatches (cs : list srv_case) : list nat := mismatches_from srv_case_ok 0 cs.
