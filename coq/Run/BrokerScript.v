(* The session-script alphabet (DESIGN.md Appendix C) parsed inside Coq, so
   that the vm_compute runner and the extracted OCaml runner share one
   translation from the harness's op lines to labels.  Definitions only. *)
From Coq Require Import List String NArith ZArith Bool Ascii.
Import ListNotations.
From GMQ Require Import Broker.Model Run.BrokerRun.
Open Scope string_scope.

Fixpoint split_on (sep : ascii) (s : string) (cur : string) : list string :=
  match s with
  | EmptyString => [cur]
  | String a t => if Ascii.eqb a sep then cur :: split_on sep t "" else split_on sep t (cur ++ String a "")
  end.
Definition fields (s : string) : list string := filter (fun x => negb (String.eqb x "")) (split_on " "%char s "").

Fixpoint N_of_digits (s : string) (acc : N) : N :=
  match s with
  | EmptyString => acc
  | String a t => N_of_digits t (acc * 10 + (N_of_ascii a - 48))%N
  end.
Definition pN (s : string) : N := N_of_digits s 0%N.
Definition pB (s : string) : bool := String.eqb s "1".
Definition pS (s : string) : string := if String.eqb s "-" then "" else s.
Definition pArgs (s : string) : list (string * string) :=
  if String.eqb s "-" then [] else
  map (fun kv => match split_on "="%char kv "" with k :: v :: _ => (k, v) | _ => (kv, "") end) (split_on ","%char s "").
Definition pLens (s : string) : list N :=
  if String.eqb s "0" || String.eqb s "-" then [] else map pN (split_on "+"%char s "").

Definition nthS (l : list string) (i : N) : string := nth (N.to_nat i) l "".

Definition parse_op (op : string) : list label :=
  let f := fields op in
  let k := nthS f 0%N in
  let c := pN (nthS f 1%N) in
  let h := pN (nthS f 2%N) in
  let a i := nthS f i in
  let M m := [LMethod c h m] in
  if String.eqb k "OPEN" then [LConnect c]
  else if String.eqb k "DROP" then [LSocketLoss c]
  else if String.eqb k "CLOSE" then [LMethod c 0%N MConnClose]
  else if String.eqb k "CLOSEOK" then [LMethod c 0%N MConnCloseOk]
  else if String.eqb k "ACCEPT" then [LAccept c]
  (* a graceful stop writes out what the store still holds pending, then the broker starts again from the store
     (LRestart on its own, with store operations pending, is a kill) *)
  else if String.eqb k "RESTART" then [LPersistTick; LRestart]
  else if String.eqb k "BADM" then [LBadMethod c h]
  else if String.eqb k "HB" then [LHeartbeat c h]
  else if String.eqb k "IDLE" then (if pB (a 2%N) then [LSocketLoss c] else [])
  else if String.eqb k "STARTOK" then [LMethod c 0%N (MStartOk (pB (a 2%N)))]
  else if String.eqb k "TUNEOK" then [LMethod c 0%N (MTuneOk (pB (a 2%N)))]
  else if String.eqb k "COPEN" then [LMethod c 0%N (MConnOpen (pB (a 2%N)))]
  else if String.eqb k "CH" then M MChannelOpen
  else if String.eqb k "CHCLOSE" then M MChannelClose
  else if String.eqb k "CHCLOSEOK" then M MChannelCloseOk
  else if String.eqb k "FLOW" then M (MChannelFlow (pB (a 3%N)))
  else if String.eqb k "XD" then M (MExDeclare (pS (a 3%N)) (pS (a 4%N)) (pB (a 5%N)) (pB (a 6%N)) (pB (a 7%N)) (pB (a 8%N)) (pB (a 9%N)))
  else if String.eqb k "XDEL" then M (MExDelete (pS (a 3%N)) (pB (a 4%N)) (pB (a 5%N)))
  else if String.eqb k "QD" then M (MQDeclare (pS (a 3%N)) (pB (a 4%N)) (pB (a 5%N)) (pB (a 6%N)) (pB (a 7%N)) (pB (a 8%N)))
  else if String.eqb k "QB" then M (MQBind (pS (a 3%N)) (pS (a 4%N)) (pS (a 5%N)) (pArgs (a 6%N)) (pB (a 7%N)))
  else if String.eqb k "QU" then M (MQUnbind (pS (a 3%N)) (pS (a 4%N)) (pS (a 5%N)) (pArgs (a 6%N)))
  else if String.eqb k "QP" then M (MQPurge (pS (a 3%N)) (pB (a 4%N)))
  else if String.eqb k "QDEL" then M (MQDelete (pS (a 3%N)) (pB (a 4%N)) (pB (a 5%N)) (pB (a 6%N)))
  else if String.eqb k "QOS" then M (MQos (pN (a 3%N)) (pN (a 4%N)) (pB (a 5%N)))
  else if String.eqb k "CONS" then M (MConsume (pS (a 3%N)) (pS (a 4%N)) (pB (a 5%N)) (pB (a 6%N)) (pB (a 7%N)))
  else if String.eqb k "CANCEL" then M (MCancel (pS (a 3%N)) (pB (a 4%N)))
  else if String.eqb k "GET" then M (MGet (pS (a 3%N)) (pB (a 4%N)))
  else if String.eqb k "ACK" then M (MAck (pN (a 3%N)) (pB (a 4%N)))
  else if String.eqb k "REJ" then M (MReject (pN (a 3%N)) (pB (a 4%N)))
  else if String.eqb k "NACK" then M (MNack (pN (a 3%N)) (pB (a 4%N)) (pB (a 5%N)))
  else if String.eqb k "RECOVER" then M (MRecover (pB (a 3%N)))
  else if String.eqb k "CONFIRM" then M (MConfirmSelect (pB (a 3%N)))
  else if String.eqb k "TXSELECT" then M MTxSelect
  else if String.eqb k "PUBM" then M (MPublish (pS (a 3%N)) (pS (a 4%N)) (pB (a 5%N)) (pB (a 6%N)))
  else if String.eqb k "HDR" then [LHeader c h (pN (a 5%N)) (pN (a 3%N)) (pB (a 4%N))]
  else if String.eqb k "BODY" then [LBody c h (pN (a 5%N))]
  else if String.eqb k "PUB" then
    (* PUB c h ex key mand imm pers uid len+len *)
    let lens := pLens (a 9%N) in
    LMethod c h (MPublish (pS (a 3%N)) (pS (a 4%N)) (pB (a 5%N)) (pB (a 6%N))) ::
    LHeader c h (pN (a 8%N)) (fold_left N.add lens 0%N) (pB (a 7%N)) ::
    map (fun l => LBody c h l) lens
  else [].

(* "MULTI op | op | op": several requests sent back to back (pipelined) before the broker is left to settle *)
Definition parse_line (line : string) : list label :=
  match fields line with
  | k :: _ => if String.eqb k "MULTI"
              then flat_map parse_op (split_on "|"%char (String.substring 6 (String.length line - 6) line) "")
              else parse_op line
  | [] => []
  end.

Definition run_text_session (cfg : config) (fx : fixes) (ops : list string) : list (list string * list string) :=
  run_session cfg fx (init cfg) (map parse_line ops).
