(* Case runner for the queue/overflow correspondence (C19, C20): evaluates the model on the
   label lists the implementation ran and reports the indices of the cases that differ.
   Definitions only. *)
From Coq Require Import List NArith ZArith Bool.
Import ListNotations.
From GMQ Require Import Data.QueueSwap.
Open Scope N_scope.

(* after every label: the output and (swapped, lastStored, lastMem, queueLength, ring length) *)
Definition qs_snap := (bool * N * N * Z * N)%type.
Definition qs_obs := (out * qs_snap)%type.
(* at the end: ring, persistent pending adds / flushed keys, transient pending adds / flushed keys *)
Definition qs_final := (list N * list N * list N * list N * list N)%type.
Definition qs_case := (bool * N * list label * list qs_obs * qs_final)%type.

Definition snap_of (s : qstate) : qs_snap :=
  (swapped s, lastStored s, lastMem s, qlen s, N.of_nat (length (mem s))).

Fixpoint list_eqb {A} (eqb : A -> A -> bool) (l1 l2 : list A) : bool :=
  match l1, l2 with
  | [], [] => true
  | x :: t1, y :: t2 => eqb x y && list_eqb eqb t1 t2
  | _, _ => false
  end.

Definition optN_eqb (a b : option N) : bool :=
  match a, b with
  | None, None => true
  | Some x, Some y => x =? y
  | _, _ => false
  end.

Definition out_eqb (a b : out) : bool :=
  match a, b with
  | ONone, ONone => true
  | OPop x, OPop y => optN_eqb x y
  | OPurge x, OPurge y => Z.eqb x y
  | _, _ => false
  end.

Definition snap_eqb (a b : qs_snap) : bool :=
  let '(a1, a2, a3, a4, a5) := a in let '(b1, b2, b3, b4, b5) := b in
  Bool.eqb a1 b1 && (a2 =? b2) && (a3 =? b3) && Z.eqb a4 b4 && (a5 =? b5).

Definition obs_eqb (a b : qs_obs) : bool := out_eqb (fst a) (fst b) && snap_eqb (snd a) (snd b).

Fixpoint qs_trace (c : qcfg) (s : qstate) (ls : list label) : list qs_obs * qstate :=
  match ls with
  | [] => ([], s)
  | lab :: t =>
    let '(s1, o) := q_step c s lab in
    let '(os, s2) := qs_trace c s1 t in
    ((o, snap_of s1) :: os, s2)
  end.

Definition final_of (s : qstate) : qs_final :=
  (mem s, sortN (s_add (pst s)), s_flushed (pst s), sortN (s_add (tst s)), s_flushed (tst s)).

Definition final_eqb (a b : qs_final) : bool :=
  let '(a1, a2, a3, a4, a5) := a in let '(b1, b2, b3, b4, b5) := b in
  list_eqb N.eqb a1 b1 && list_eqb N.eqb a2 b2 && list_eqb N.eqb a3 b3 && list_eqb N.eqb a4 b4 && list_eqb N.eqb a5 b5.

Definition qs_case_ok (cs : qs_case) : bool :=
  let '(d, m, ls, obs, fin) := cs in
  let '(os, s) := qs_trace (mkCfg d m) q_init ls in
  list_eqb obs_eqb os obs && final_eqb (final_of s) fin.

Fixpoint mismatches_from {A} (ok : A -> bool) (i : nat) (cs : list A) : list nat :=
  match cs with
  | [] => []
  | c :: t => if ok c then mismatches_from ok (S i) t else i :: mismatches_from ok (S i) t
  end.

Definition qs_mismatches (cs : list qs_case) : list nat := mismatches_from qs_case_ok 0 cs.

(* per case: does the label list satisfy the hypotheses of C19_config_independent_partial? *)
Definition qs_hyps (cs : list qs_case) : list bool :=
  map (fun c => let '(d, m, ls, _, _) := c in wf_client ls && no_findings (mkCfg d m) ls) cs.

(* ... and of C19_order_exactly_once_partial (no scheduling hypothesis)? *)
Definition qs_hyps_safety (cs : list qs_case) : list bool :=
  map (fun c => let '(d, m, ls, _, _) := c in
                let r := q_run (mkCfg d m) q_init ls in
                wf_client (effective ls (snd r)) && no_findings_safety (mkCfg d m) ls) cs.

(* ... and of the theorems over label lists with restarts? *)
Definition qs_hyps_restart (cs : list qs_case) : list bool :=
  map (fun c => let '(d, m, ls, _, _) := c in wf_client ls && no_findings_restart (mkCfg d m) ls) cs.
