(* Case runner for the safequeue correspondence: evaluates the model on the
   operation lists the implementation ran and reports the indices that differ. *)
From Coq Require Import List Arith NArith Bool.
Import ListNotations.
From GMQ Require Import Data.SafeQueue Data.gen.SafeQueueGen.

Definition optN_eqb (a b : option N) : bool :=
  match a, b with
  | None, None => true
  | Some x, Some y => N.eqb x y
  | _, _ => false
  end.

Definition sq_out_eqb (a b : sq_out) : bool :=
  match a, b with
  | RNone, RNone => true
  | RItem x, RItem y => optN_eqb x y
  | RLen x, RLen y => Nat.eqb x y
  | _, _ => false
  end.

Fixpoint list_eqb {A} (eqb : A -> A -> bool) (l1 l2 : list A) : bool :=
  match l1, l2 with
  | [], [] => true
  | x :: t1, y :: t2 => eqb x y && list_eqb eqb t1 t2
  | _, _ => false
  end.

Definition sq_case := (nat * list sq_op * list sq_out)%type.

Definition sq_model_outs (sz : nat) (ops : list sq_op) : list sq_out :=
  snd (sq_run purge_resets_pos sz (sq_new sz) ops).

Definition sq_case_ok (c : sq_case) : bool :=
  let '(sz, ops, outs) := c in list_eqb sq_out_eqb (sq_model_outs sz ops) outs.

Fixpoint mismatches_from {A} (ok : A -> bool) (i : nat) (cs : list A) : list nat :=
  match cs with
  | [] => []
  | c :: t => if ok c then mismatches_from ok (S i) t else i :: mismatches_from ok (S i) t
  end.

Definition sq_mismatches (cs : list sq_case) : list nat := mismatches_from sq_case_ok 0 cs.
