(* Runner for the broker-level correspondence (tier T1): evaluates the model
   on a session script - one client step at a time, each followed by the
   canonical drain to quiescence - and renders what the harness observes on
   the implementation (frames per connection, projected snapshot) as the same
   canonical strings.  Definitions only. *)
From Coq Require Import List String NArith ZArith Bool Ascii.
Import ListNotations.
From GMQ Require Import Broker.Model.
Open Scope string_scope.

Fixpoint N_digits (fuel : nat) (n : N) (acc : string) : string :=
  match fuel with
  | O => acc
  | S f =>
    let d := N.modulo n 10 in
    let acc' := String (ascii_of_N (48 + d)) acc in
    if N.ltb n 10 then acc' else N_digits f (N.div n 10) acc'
  end.
Definition sN (n : N) : string := N_digits 40 n "".
Definition sZ (z : Z) : string := match z with Z0 => "0" | Zpos p => sN (Npos p) | Zneg p => "-" ++ sN (Npos p) end.
Definition sB (b : bool) : string := if b then "1" else "0".
Definition snat (n : nat) : string := sN (N.of_nat n).
Fixpoint sjoin (sep : string) (l : list string) : string :=
  match l with [] => "" | [x] => x | x :: t => x ++ sep ++ sjoin sep t end.

Definition s_sframe (f : sframe) : string :=
  match f with
  | SChannelOpenOk => "channel.open-ok"
  | SChannelCloseOk => "channel.close-ok"
  | SChannelFlowOk a => "channel.flow-ok(" ++ sB a ++ ")"
  | SChannelClose code cls mth => "channel.close(" ++ sN code ++ "," ++ sN cls ++ "," ++ sN mth ++ ")"
  | SConnClose code cls mth => "connection.close(" ++ sN code ++ "," ++ sN cls ++ "," ++ sN mth ++ ")"
  | SConnCloseOk => "connection.close-ok"
  | SExDeclareOk => "exchange.declare-ok"
  | SExDeleteOk => "exchange.delete-ok"
  | SQDeclareOk name mc cc => "queue.declare-ok(" ++ name ++ "," ++ sN mc ++ "," ++ sN cc ++ ")"
  | SQBindOk => "queue.bind-ok"
  | SQUnbindOk => "queue.unbind-ok"
  | SQPurgeOk n => "queue.purge-ok(" ++ sN n ++ ")"
  | SQDeleteOk n => "queue.delete-ok(" ++ sN n ++ ")"
  | SQosOk => "basic.qos-ok"
  | SConsumeOk tag => "basic.consume-ok(" ++ tag ++ ")"
  | SCancelOk tag => "basic.cancel-ok(" ++ tag ++ ")"
  | SCancel tag => "basic.cancel(" ++ tag ++ ")"
  | SDeliver ctag dtag red ex key => "basic.deliver(" ++ ctag ++ "," ++ sN dtag ++ "," ++ sB red ++ "," ++ ex ++ "," ++ key ++ ")"
  | SGetOk dtag red ex key mc => "basic.get-ok(" ++ sN dtag ++ "," ++ sB red ++ "," ++ ex ++ "," ++ key ++ "," ++ sN mc ++ ")"
  | SGetEmpty => "basic.get-empty"
  | SReturn code ex key => "basic.return(" ++ sN code ++ "," ++ ex ++ "," ++ key ++ ")"
  | SHeader u size pers => "header(" ++ sN u ++ "," ++ sN size ++ "," ++ sB pers ++ ")"
  | SBody u len => "body(" ++ sN u ++ "," ++ sN len ++ ")"
  | SAck t m => "basic.ack(" ++ sN t ++ "," ++ sB m ++ ")"
  | SConfirmSelectOk => "confirm.select-ok"
  | SConnStart => "connection.start"
  | SConnTune => "connection.tune"
  | SConnOpenOk => "connection.open-ok"
  | SConnGone => "GONE"
  end.

Definition s_event (e : event) : string :=
  let '(c, h, f) := e in sN c ++ "." ++ sN h ++ ":" ++ s_sframe f.

(* frames are observed per connection: stable-sort the events by connection id *)
Definition events_of_conn (c : N) (evs : list event) : list event := filter (fun e => N.eqb (fst (fst e)) c) evs.
Fixpoint conn_ids (evs : list event) (acc : list N) : list N :=
  match evs with
  | [] => acc
  | (c, _, _) :: t => if existsb (N.eqb c) acc then conn_ids t acc else conn_ids t (List.app acc [c])
  end.
Fixpoint insert_N (x : N) (l : list N) : list N :=
  match l with [] => [x] | y :: t => if N.leb x y then x :: l else y :: insert_N x t end.
Definition sort_N (l : list N) : list N := fold_right insert_N [] l.
Definition by_conn (evs : list event) : list event :=
  flat_map (fun c => events_of_conn c evs) (sort_N (conn_ids evs [])).

(* snapshot projection *)
Definition s_qos (w : qosw) : string := sN (pc w) ++ "/" ++ sN (ps w) ++ "/" ++ sN (cc w) ++ "/" ++ sN (cs w).
Definition s_cstatus (st : cstatus) : string := match st with CStarted => "0" | CStopped => "1" | CPaused => "2" end.
Definition s_chstatus (st : chstatus) : string := match st with ChNew => "0" | ChOpen => "1" | ChClosing => "2" | ChClosed => "3" end.

Definition s_consumer (cfg : config) (cm : consumer) : string :=
  c_tag cm ++ ":" ++ c_queue cm ++ ":" ++ sB (c_noack cm) ++ ":" ++ s_cstatus (c_status cm) ++
  (if cfg_rabbit cfg then ":" ++ s_qos (c_own cm) else "").
Definition mid_of (s : state) (u : N) : N := match get_msg s u with Some m => m_mid m | None => 0%N end.
Definition s_unacked (s : state) (u : unacked) : string :=
  sN (u_tag u) ++ ":" ++ u_ctag u ++ ":" ++ u_queue u ++ ":" ++ sN (mid_of s (u_msg u)).

Fixpoint insert_by {A} (key : A -> string) (x : A) (l : list A) : list A :=
  match l with
  | [] => [x]
  | y :: t => match String.compare (key x) (key y) with
              | Gt => y :: insert_by key x t
              | _ => x :: l
              end
  end.
Definition sort_by {A} (key : A -> string) (l : list A) : list A := fold_right (insert_by key) [] l.
Fixpoint insert_unacked (x : unacked) (l : list unacked) : list unacked :=
  match l with [] => [x] | y :: t => if N.leb (u_tag x) (u_tag y) then x :: l else y :: insert_unacked x t end.

Definition s_channel (cfg : config) (s : state) (c : N) (hkv : N * channel) : string :=
  let '(h, ch) := hkv in
  "ch " ++ sN c ++ "." ++ sN h ++ " st=" ++ s_chstatus (ch_status ch) ++ " flow=" ++ sB (ch_flow ch) ++
  " dtag=" ++ sN (ch_dtag ch) ++ " ctag=" ++ sN (ch_ctag ch) ++ " confirm=" ++ sB (ch_confirm ch) ++
  " cur=" ++ sB (match ch_cur ch with Some _ => true | None => false end) ++
  " qos=" ++ s_qos (ch_qos ch) ++ " cqos=" ++ s_qos (ch_cqos ch) ++
  " consumers=[" ++ sjoin " " (map (s_consumer cfg) (sort_by c_tag (ch_consumers ch))) ++ "]" ++
  " unacked=[" ++ sjoin " " (map (s_unacked s) (fold_right insert_unacked [] (ch_unacked ch))) ++ "]".

Definition s_conn (cfg : config) (s : state) (ckv : N * conn) : list string :=
  let '(c, cn) := ckv in
  ("conn " ++ sN c ++ " st=" ++ (match cn_stage cn with StStart => "s" | StTune => "t" | StTuneOk => "k" | StOpen => "o" end) ++
   " qos=" ++ s_qos (cn_qos cn)) ::
  map (s_channel cfg s c) (fold_right (fun x l => let fix ins l := match l with [] => [x] | y :: t => if N.leb (fst x) (fst y) then x :: l else y :: ins t end in ins l) [] (cn_chans cn)).

Definition s_queue (s : state) (qkv : string * queue) : string :=
  let '(qn, qu) := qkv in
  "queue " ++ qn ++ " ready=[" ++ sjoin " " (map (fun u => sN (mid_of s u)) (q_ready qu)) ++ "] len=" ++ sZ (q_len qu) ++
  " consumers=[" ++ sjoin " " (map (fun x => sN (fst (fst x)) ++ "." ++ sN (snd (fst x)) ++ ":" ++ snd x) (q_consumers qu)) ++ "]" ++
  " active=" ++ sB (q_active qu) ++ " excl=" ++ sB (q_excl qu) ++ " ad=" ++ sB (q_autodel qu) ++ " dur=" ++ sB (q_durable qu) ++
  " owner=" ++ sN (q_owner qu) ++ " cexcl=" ++ sB (q_cexcl qu) ++
  " m=" ++ sZ (q_mready qu) ++ "/" ++ sZ (q_munacked qu) ++ "/" ++ sZ (q_mtotal qu).

Definition s_binding (b : binding) : string := b_queue b ++ "<-" ++ b_key b ++ "#" ++ snat (List.length (b_args b)).
Definition s_exchange (ekv : string * exchange) : string :=
  let '(en, e) := ekv in
  "exchange " ++ en ++ " type=" ++ (match e_type e with ExDirect => "1" | ExFanout => "2" | ExTopic => "3" | ExHeaders => "4" end) ++
  " dur=" ++ sB (e_durable e) ++ " ad=" ++ sB (e_autodel e) ++ " int=" ++ sB (e_internal e) ++
  " bindings=[" ++ sjoin " " (sort_by (fun x => x) (map s_binding (e_bindings e))) ++ "]".

Definition sort_kvN {A} (l : list (N * A)) : list (N * A) :=
  fold_right (fun x l => let fix ins l := match l with [] => [x] | y :: t => if N.leb (fst x) (fst y) then x :: l else y :: ins t end in ins l) [] l.

Definition s_state (cfg : config) (s : state) : list string :=
  List.app (flat_map (s_conn cfg s) (sort_kvN (conns s)))
  (List.app (map (s_queue s) (sort_by fst (queues s)))
  (List.app (map s_exchange (sort_by fst (exchanges s)))
   ["server m=" ++ sZ (srv_ready s) ++ "/" ++ sZ (srv_unacked s) ++ "/" ++ sZ (srv_total s)])).

Definition is_tick (l : label) : bool := match l with LPersistTick => true | _ => false end.
Fixpoint drain_but_store (cfg : config) (fx : fixes) (fuel : nat) (s : state) : state * list event :=
  match fuel with
  | O => (s, [])
  | S f =>
    match filter (fun l => negb (is_tick l)) (enabled_internal s) with
    | [] => (s, [])
    | l :: _ => let '(s1, e1) := step cfg fx s l in let '(s2, e2) := drain_but_store cfg fx f s1 in (s2, List.app e1 e2)
    end
  end.

(* one script step: the client's frames, then internal labels to quiescence *)
Definition run_step (cfg : config) (fx : fixes) (s : state) (ls : list label) : state * list event :=
  let '(s1, e1) := run cfg fx s ls in
  let '(s2, e2) := drain cfg fx 2000 s1 in
  (s2, List.app e1 e2).

(* a step that is followed at once by a graceful stop: the harness waits until the request is handled and the
   goroutine turns it enabled have run - everything but the store's tick - and then stops the broker, which must
   write out what is pending (the stop is [LPersistTick; LRestart], Run/BrokerScript.v) *)
Definition run_step_before_stop (cfg : config) (fx : fixes) (s : state) (ls : list label) : state * list event :=
  let '(s1, e1) := run cfg fx s ls in
  let '(s2, e2) := drain_but_store cfg fx 2000 s1 in
  (s2, List.app e1 e2).

Definition is_stop (ls : list label) : bool :=
  match ls with [LPersistTick; LRestart] => true | _ => false end.
Definition is_drop (ls : list label) : bool :=
  match ls with [LSocketLoss _] => true | _ => false end.
(* the steps that follow are connection drops and then the graceful stop *)
Fixpoint stop_ahead (t : list (list label)) : bool :=
  match t with
  | nxt :: t' => is_stop nxt || (is_drop nxt && stop_ahead t')
  | [] => false
  end.

Fixpoint run_session (cfg : config) (fx : fixes) (s : state) (script : list (list label))
  : list (list string * list string) :=
  match script with
  | [] => []
  | ls :: t =>
    let '(s', evs) := if stop_ahead t then run_step_before_stop cfg fx s ls else run_step cfg fx s ls in
    (map s_event (by_conn evs), s_state cfg s') :: run_session cfg fx s' t
  end.
