(* Case runner for the routing correspondence (definitions only; must build even when
   proofs break).  A case is what the harness did with binding.NewBinding and one
   exchange.Exchange: a list of binding operations, then GetMatchedQueues on one message;
   the expected outputs are the implementation's. *)
From Coq Require Import List Arith NArith ZArith Bool.
Import ListNotations.
From GMQ Require Import Route.Value Route.Cfg Route.Topic Route.Exchange Route.gen.RouteGen.
Open Scope N_scope.

Inductive rop :=
| RBind (q key : bytes) (args : option table) (topic : bool)      (* NewBinding + AppendBinding *)
| RUnbind (q key : bytes) (args : option table) (topic : bool)    (* NewBinding + RemoveBinding *)
| RDelQueue (q : bytes).                                          (* RemoveQueueBindings *)

Record rt_case := {
  rc_type : N;                   (* exType byte given to NewExchange *)
  rc_exname : bytes;             (* exchange name used for every binding *)
  rc_ops : list rop;
  rc_msg : message_view;
  (* implementation outputs *)
  rc_errs : list nat;            (* indices of ops whose NewBinding returned an error *)
  rc_bindings : list (bytes * bytes);   (* GetBindings afterwards: (queue, key) in order *)
  rc_matched : option (list bytes)      (* keys of the matched map, any order; None = panic *)
}.

Fixpoint run_ops (c : route_cfg) (exn : bytes) (ops : list rop) (i : nat) (bs : list binding) (errs : list nat)
  : list binding * list nat :=
  match ops with
  | [] => (bs, rev errs)
  | op :: t =>
      match op with
      | RBind q key args topic =>
          match new_binding c q exn key args topic with
          | Some b => run_ops c exn t (S i) (append_binding bs b) errs
          | None => run_ops c exn t (S i) bs (i :: errs)
          end
      | RUnbind q key args topic =>
          match new_binding c q exn key args topic with
          | Some b => run_ops c exn t (S i) (remove_binding bs b) errs
          | None => run_ops c exn t (S i) bs (i :: errs)
          end
      | RDelQueue q => run_ops c exn t (S i) (remove_queue_bindings bs q) errs
      end
  end.

Fixpoint list_eqb {A} (eqb : A -> A -> bool) (l1 l2 : list A) : bool :=
  match l1, l2 with
  | [], [] => true
  | x :: t1, y :: t2 => eqb x y && list_eqb eqb t1 t2
  | _, _ => false
  end.

Definition subset_b (a b : list bytes) : bool := forallb (fun x => existsb (bytes_eqb x) b) a.
Definition set_eqb (a b : list bytes) : bool :=
  Nat.eqb (length a) (length b) && subset_b a b && subset_b b a.

Definition rt_model (c : route_cfg) (k : rt_case) : list nat * list (bytes * bytes) * option (list bytes) :=
  let '(bs, errs) := run_ops c (rc_exname k) (rc_ops k) 0 [] [] in
  (errs, map (fun b => (b_queue b, b_key b)) bs,
   matched_queues c {| ex_name := rc_exname k; ex_type := rc_type k; ex_bindings := bs |} (rc_msg k)).

Definition rt_case_ok (c : route_cfg) (k : rt_case) : bool :=
  let '(errs, bl, mq) := rt_model c k in
  list_eqb Nat.eqb errs (rc_errs k) &&
  list_eqb (fun a b => bytes_eqb (fst a) (fst b) && bytes_eqb (snd a) (snd b)) bl (rc_bindings k) &&
  match mq, rc_matched k with
  | None, None => true
  | Some a, Some b => set_eqb a b     (* the model's list has no duplicates; the harness prints map keys *)
  | _, _ => false
  end.

Fixpoint mismatches_from {A} (ok : A -> bool) (i : nat) (cs : list A) : list nat :=
  match cs with
  | [] => []
  | c :: t => if ok c then mismatches_from ok (S i) t else i :: mismatches_from ok (S i) t
  end.

Definition rt_mismatches (cs : list rt_case) : list nat := mismatches_from (rt_case_ok gen_cfg) 0 cs.

(* ---- (pattern, key) pairs: NewBinding(topic) error flag and MatchTopic result ---- *)
(* expected: 0 = no match, 1 = match, 2 = NewBinding error *)
Definition tp_model (c : route_cfg) (pat key : bytes) : N :=
  match new_binding c [113] [101] pat None true with
  | None => 2
  | Some b => if match_topic b [101] key then 1 else 0
  end.

Definition tp_mismatches (cs : list (bytes * bytes * N)) : list nat :=
  mismatches_from (fun k => let '(p, ky, r) := k in N.eqb (tp_model gen_cfg p ky) r) 0 cs.

(* ---- bounded-exhaustive (pattern, key) pairs, enumerated inside Coq ----
   All token lists of length 0..n over an alphabet, shorter first, then in base-|alphabet|
   counting order; the string of a token list is its tokens joined by dots.  For one pattern the
   result is the bit set (bit i = key number i matches) or None when NewBinding fails. *)
Fixpoint lists_of_len {A} (alpha : list A) (n : nat) : list (list A) :=
  match n with
  | O => [[]]
  | S n' => flat_map (fun a => map (cons a) (lists_of_len alpha n')) alpha
  end.

Fixpoint lists_upto {A} (alpha : list A) (n : nat) : list (list A) :=
  match n with
  | O => [[]]
  | S n' => lists_upto alpha n' ++ lists_of_len alpha (S n')
  end.

Fixpoint join_dots (ws : list bytes) : bytes :=
  match ws with
  | [] => []
  | [w] => w
  | w :: t => w ++ dot :: join_dots t
  end.

Fixpoint bits_of (l : list bool) : N :=
  match l with
  | [] => 0
  | b :: t => (if b then 1 else 0) + 2 * bits_of t
  end.

Definition ex_row (c : route_cfg) (keys : list bytes) (pat : bytes) : option N :=
  match new_binding c [113] [101] pat None true with
  | None => None
  | Some b => Some (bits_of (map (fun k => match_topic b [101] k) keys))
  end.

Definition ex_rows (c : route_cfg) (palpha kalpha : list bytes) (pn kn : nat) : list (option N) :=
  let keys := map join_dots (lists_upto kalpha kn) in
  map (fun p => ex_row c keys (join_dots p)) (lists_upto palpha pn).

Definition optN_eqb (a b : option N) : bool :=
  match a, b with
  | None, None => true
  | Some x, Some y => N.eqb x y
  | _, _ => false
  end.

Definition ex_mismatches (palpha kalpha : list bytes) (pn kn : nat) (expected : list (option N)) : list nat :=
  let rows := ex_rows gen_cfg palpha kalpha pn kn in
  (if Nat.eqb (length rows) (length expected) then [] else [length rows]) ++
  mismatches_from (fun p => optN_eqb (fst p) (snd p)) 0 (combine rows expected).

(* ---- broker-level scripts: topology operations and publishes observed on the running broker ---- *)
Inductive br_step :=
| BOp (op : topo_op)
| BPub (m : message_view) (returned : bool) (pushed : list bytes).   (* queues whose ready list gained the message *)

Definition pushes_of (acts : list pub_action) : list bytes :=
  flat_map (fun a => match a with PPush q => [q] | _ => [] end) acts.
Definition returned_of (acts : list pub_action) : bool :=
  existsb (fun a => match a with PReturn => true | _ => false end) acts.

Fixpoint br_run (c : route_cfg) (t : topo) (steps : list br_step) (i : nat) : list nat :=
  match steps with
  | [] => []
  | BOp op :: r => br_run c (topo_step c t op) r (S i)
  | BPub m ret pushed :: r =>
      let ok := match publish_decision c (find_exchange (t_exchanges t)) (queue_declared t) m with
                | None => false
                | Some acts => Bool.eqb (returned_of acts) ret && set_eqb (pushes_of acts) pushed
                end in
      (if ok then [] else [i]) ++ br_run c t r (S i)
  end.

(* per script: the indices of the steps where model and broker differ *)
Definition br_mismatches (scripts : list (list br_step)) : list (list nat) :=
  map (fun s => br_run gen_cfg (topo_init gen_cfg) s 0) scripts.
