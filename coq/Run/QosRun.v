(* Case runner for the qos correspondence (Props C06): evaluates the model on the
   operation lists the implementation ran and reports the indices that differ.
   Single-window cases are evaluated twice: with the hand model (Data/Qos.v) and
   with the functions translated from qos.go (Data/gen/QosGen.v).  Window-list
   cases (the loop of PopQos) use the hand model's [reserve_gen] with the regenerated
   parameters [popqos_rolls_back] and [popqos_skips_inactive].  Definitions only. *)
From Coq Require Import List NArith Bool.
Import ListNotations.
From GMQ Require Import Data.Qos Data.gen.QosGen.
Open Scope N_scope.

Record qos_impl := {
  i_new : N -> N -> qos; i_update : qos -> N -> N -> qos; i_is_active : qos -> bool;
  i_inc : qos -> N -> N -> bool * qos; i_dec : qos -> N -> N -> qos;
  i_release : qos -> qos; i_copy : qos -> qos }.

Definition hand_impl : qos_impl :=
  {| i_new := Qos.qos_new; i_update := Qos.qos_update; i_is_active := Qos.qos_is_active;
     i_inc := Qos.qos_inc; i_dec := Qos.qos_dec; i_release := Qos.qos_release; i_copy := Qos.qos_copy |}.

Definition gen_impl : qos_impl :=
  {| i_new := QosGen.qos_new; i_update := QosGen.qos_update; i_is_active := QosGen.qos_is_active;
     i_inc := QosGen.qos_inc; i_dec := QosGen.qos_dec; i_release := QosGen.qos_release; i_copy := QosGen.qos_copy |}.

Inductive qos_op :=
| QInc (count size : N) | QDec (count size : N) | QUpdate (pc ps : N) | QRelease | QCopy | QIsActive.

(* a window as the harness prints it: pc, cc, ps, cs *)
Definition qw := (N * N * N * N)%type.
Definition qw_of (q : qos) : qw := (prefetchCount q, currentCount q, prefetchSize q, currentSize q).
Definition qos_of (w : qw) : qos := let '(pc, cc, ps, cs) := w in mkQos pc cc ps cs.
Definition qw_eqb (a b : qw) : bool :=
  let '(a1, a2, a3, a4) := a in let '(b1, b2, b3, b4) := b in
  (a1 =? b1) && (a2 =? b2) && (a3 =? b3) && (a4 =? b4).

Definition optb_eqb (a b : option bool) : bool :=
  match a, b with
  | None, None => true
  | Some x, Some y => Bool.eqb x y
  | _, _ => false
  end.

Fixpoint list_eqb {A} (eqb : A -> A -> bool) (l1 l2 : list A) : bool :=
  match l1, l2 with
  | [], [] => true
  | x :: t1, y :: t2 => eqb x y && list_eqb eqb t1 t2
  | _, _ => false
  end.

Definition w_out := (option bool * qw)%type.
Definition w_out_eqb (a b : w_out) : bool := optb_eqb (fst a) (fst b) && qw_eqb (snd a) (snd b).

Definition w_step (I : qos_impl) (q : qos) (o : qos_op) : qos * option bool :=
  match o with
  | QInc c s => let '(b, q') := i_inc I q c s in (q', Some b)
  | QDec c s => (i_dec I q c s, None)
  | QUpdate pc ps => (i_update I q pc ps, None)
  | QRelease => (i_release I q, None)
  | QCopy => (i_copy I q, None)
  | QIsActive => (q, Some (i_is_active I q))
  end.

Fixpoint w_run (I : qos_impl) (q : qos) (ops : list qos_op) : list w_out :=
  match ops with
  | [] => []
  | o :: t => let '(q', r) := w_step I q o in (r, qw_of q') :: w_run I q' t
  end.

(* (pc, ps, ops, outs) *)
Definition w_case := (N * N * list qos_op * list w_out)%type.
Definition w_case_ok (I : qos_impl) (c : w_case) : bool :=
  let '(pc, ps, ops, outs) := c in list_eqb w_out_eqb (w_run I (i_new I pc ps) ops) outs.

(* window lists *)
Inductive r_op := RPop (bodysize : N) | RSettle (bodysize : N).
Definition r_out := (option bool * list qw)%type.
Definition r_out_eqb (a b : r_out) : bool := optb_eqb (fst a) (fst b) && list_eqb qw_eqb (snd a) (snd b).

Definition r_step (ws : list qos) (o : r_op) : list qos * option bool :=
  match o with
  | RPop n => let '(b, ws') := reserve_gen popqos_rolls_back popqos_skips_inactive ws n in (ws', Some b)
  | RSettle n => (release_all ws n, None)
  end.

Fixpoint r_run (ws : list qos) (ops : list r_op) : list r_out :=
  match ops with
  | [] => []
  | o :: t => let '(ws', r) := r_step ws o in (r, map qw_of ws') :: r_run ws' t
  end.

Definition r_case := (list qw * list r_op * list r_out)%type.
Definition r_case_ok (c : r_case) : bool :=
  let '(ws, ops, outs) := c in list_eqb r_out_eqb (r_run (map qos_of ws) ops) outs.

Fixpoint mismatches_from {A} (ok : A -> bool) (i : nat) (cs : list A) : list nat :=
  match cs with
  | [] => []
  | c :: t => if ok c then mismatches_from ok (S i) t else i :: mismatches_from ok (S i) t
  end.

Definition w_mismatches_hand (cs : list w_case) : list nat := mismatches_from (w_case_ok hand_impl) 0 cs.
Definition w_mismatches_gen (cs : list w_case) : list nat := mismatches_from (w_case_ok gen_impl) 0 cs.
Definition r_mismatches (cs : list r_case) : list nat := mismatches_from r_case_ok 0 cs.
