(* Byte strings for the wire/storage codec model.
   byte = N (a Go byte is a value < 256; the decoders are total on every list N),
   bytes = list N, integers big-endian with explicit reduction mod 2^(8k).
   Definitions only. *)
From Coq Require Import List NArith Bool.
Import ListNotations.
Open Scope N_scope.

Definition byte := N.
Definition bytes := list N.

Definition blen (b : bytes) : N := N.of_nat (length b).

(* k bytes, big-endian, of n mod 2^(8k)   (Go: binary.BigEndian.PutUintXX / uintXX(n)) *)
Fixpoint be_enc (k : nat) (n : N) : bytes :=
  match k with
  | O => []
  | S k' => be_enc k' (n / 256) ++ [n mod 256]
  end.

Fixpoint be_dec_acc (bs : bytes) (acc : N) : N :=
  match bs with
  | [] => acc
  | b :: t => be_dec_acc t (acc * 256 + b)
  end.
Definition be_dec (bs : bytes) : N := be_dec_acc bs 0.

(* split off exactly k bytes; None when fewer are available (Go: io.ReadFull fails) *)
Fixpoint take (k : nat) (bs : bytes) : option (bytes * bytes) :=
  match k with
  | O => Some ([], bs)
  | S k' =>
    match bs with
    | [] => None
    | b :: t =>
      match take k' t with
      | Some (h, r) => Some (b :: h, r)
      | None => None
      end
    end
  end.

(* take with a length that comes from the wire: compare in N first, so that a
   forged length of 2^32-1 is never converted to a unary number *)
Definition takeN (n : N) (bs : bytes) : option (bytes * bytes) :=
  if blen bs <? n then None else take (N.to_nat n) bs.

Fixpoint bytes_eqb (a b : bytes) : bool :=
  match a, b with
  | [], [] => true
  | x :: a', y :: b' => (x =? y) && bytes_eqb a' b'
  | _, _ => false
  end.

Definition wf_bytes (b : bytes) : bool := forallb (fun x => x <? 256) b.
