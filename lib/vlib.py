"""Shared machinery of the /verif checks (see DESIGN.md section 5)."""
import fcntl, hashlib, json, os, re, shutil, subprocess, sys, time

VERIF = os.path.dirname(os.path.dirname(os.path.abspath(__file__)))
REPO = os.environ.get("VERIF_REPO", "/repo")
COQ = os.path.join(VERIF, "coq")
HARNESS = os.path.join(VERIF, "harness")
TRANSLATOR = os.path.join(VERIF, "translator")
WORK = os.path.join(VERIF, ".work")
GOENV = dict(os.environ, GOFLAGS="-mod=mod", GOPROXY="off", GOSUMDB="off", GOTOOLCHAIN="local",
             CGO_ENABLED="0")
BUILD_TAG = "verif"


class Infra(Exception):
    """Infrastructure failure (not a verdict): exit code 2, no VIOLATION line."""


def log(*a):
    print("[check]", *a, file=sys.stderr, flush=True)


def sh(cmd, cwd=None, env=None, timeout=1200, check=False, input=None):
    p = subprocess.run(cmd, cwd=cwd, env=env, timeout=timeout, capture_output=True, text=True,
                       shell=isinstance(cmd, str), input=input)
    if check and p.returncode != 0:
        raise Infra("command failed: %s\n%s\n%s" % (cmd, p.stdout[-3000:], p.stderr[-3000:]))
    return p


class Lock:
    def __init__(self, name):
        os.makedirs(WORK, exist_ok=True)
        self.path = os.path.join(WORK, name + ".lock")

    def __enter__(self):
        self.f = open(self.path, "w")
        fcntl.flock(self.f, fcntl.LOCK_EX)
        return self

    def __exit__(self, *a):
        fcntl.flock(self.f, fcntl.LOCK_UN)
        self.f.close()


def workdir(tag):
    d = os.path.join(WORK, "%s-%d" % (tag, os.getpid()))
    shutil.rmtree(d, ignore_errors=True)
    os.makedirs(d)
    return d


# ---------------------------------------------------------------- translator
def run_translator(names):
    """Regenerate coq/**/gen/*.v from REPO's working tree with the named translators
    (translator/cmd/<name>). Returns {"files": {genfile: {"status": "ok"|"unrecognised", "detail"}}, "shapes": {...}}."""
    if isinstance(names, str):
        names = [names]
    merged = {"files": {}, "shapes": {}}
    for name in names:
        with Lock("translator-" + name):
            exe = os.path.join(TRANSLATOR, "bin", name)
            p = sh(["go", "build", "-o", exe, "./cmd/" + name], cwd=TRANSLATOR, env=GOENV)
            if p.returncode != 0:
                raise Infra("translator %s does not build:\n%s" % (name, p.stderr[-3000:]))
            out = os.path.join(WORK, "gen-%s-%d" % (name, os.getpid()))
            shutil.rmtree(out, ignore_errors=True)
            os.makedirs(out)
            p = sh([exe, "-repo", REPO, "-out", out], timeout=300)
            try:
                status = json.loads(p.stdout)
            except Exception:
                raise Infra("translator %s output unreadable:\n%s\n%s" % (name, p.stdout[-2000:], p.stderr[-2000:]))
            # install write-if-changed so make only rebuilds what changed
            with Lock("coq"):
                for root, _, files in os.walk(out):
                    for f in files:
                        src = os.path.join(root, f)
                        rel = os.path.relpath(src, out)
                        dst = os.path.join(COQ, rel)
                        os.makedirs(os.path.dirname(dst), exist_ok=True)
                        new = open(src, "rb").read()
                        old = open(dst, "rb").read() if os.path.exists(dst) else None
                        if new != old:
                            with open(dst, "wb") as fh:
                                fh.write(new)
            shutil.rmtree(out, ignore_errors=True)
            merged["files"].update(status.get("files", {}))
            merged["shapes"].update(status.get("shapes", {}))
    return merged


# ---------------------------------------------------------------- coq
def coq_project():
    """_CoqProject is derived: every .v under coq/ (sorted). Rewritten only when the set changes."""
    vs = []
    for root, dirs, files in os.walk(COQ):
        dirs[:] = [d for d in dirs if not d.startswith(".")]
        for f in files:
            if f.endswith(".v") and not f.startswith("."):
                vs.append(os.path.relpath(os.path.join(root, f), COQ))
    text = "-Q . GMQ\n" + "\n".join(sorted(vs)) + "\n"
    p = os.path.join(COQ, "_CoqProject")
    if not os.path.exists(p) or open(p).read() != text:
        open(p, "w").write(text)


def coq_makefile():
    coq_project()
    if not os.path.exists(os.path.join(COQ, "Makefile")) or \
            os.path.getmtime(os.path.join(COQ, "Makefile")) < os.path.getmtime(os.path.join(COQ, "_CoqProject")):
        sh(["coq_makefile", "-f", "_CoqProject", "-o", "Makefile"], cwd=COQ, check=True)


def coq_make(targets, timeout=1500):
    """make the given .vo targets (full .vo builds). Returns (ok, log)."""
    with Lock("coq"):
        coq_makefile()
        p = sh(["timeout", str(timeout), "make", "-j16"] + list(targets), cwd=COQ, timeout=timeout + 30)
        if "No rule to make target" in p.stderr:
            os.remove(os.path.join(COQ, "Makefile"))
            coq_makefile()
            p = sh(["timeout", str(timeout), "make", "-j16"] + list(targets), cwd=COQ, timeout=timeout + 30)
        return p.returncode == 0, (p.stdout + p.stderr)


def coq_cone(vfile):
    """.v files (relative to COQ) that vfile transitively depends on, itself included."""
    coq_makefile()
    p = sh(["coqdep", "-Q", ".", "GMQ"] + all_vfiles(), cwd=COQ, check=True)
    deps = {}
    for line in p.stdout.splitlines():
        if ":" not in line:
            continue
        lhs, rhs = line.split(":", 1)
        tgt = [t for t in lhs.split() if t.endswith(".vo")]
        if not tgt:
            continue
        deps[tgt[0][:-1]] = [d[:-1] for d in rhs.split() if d.endswith(".vo") and not d.startswith("/")]
    seen, todo = set(), [vfile]
    while todo:
        v = todo.pop()
        if v in seen:
            continue
        seen.add(v)
        todo += deps.get(v, [])
    return sorted(seen)


def all_vfiles():
    out = []
    for line in open(os.path.join(COQ, "_CoqProject")):
        line = line.strip()
        if line.endswith(".v"):
            out.append(line)
    return out


_STMT = re.compile(r"^\s*(Theorem|Lemma|Corollary|Example|Fact|Remark|Proposition)\s+([A-Za-z0-9_']+)", re.M)


def count_obligations(vfiles):
    n, names = 0, []
    for v in vfiles:
        try:
            s = open(os.path.join(COQ, v)).read()
        except FileNotFoundError:
            continue
        for m in _STMT.finditer(s):
            n += 1
            names.append(v + ":" + m.group(2))
    return n, names


FORBIDDEN = re.compile(r"\b(Admitted|admit|Axiom|Axioms|Parameter|Parameters|Conjecture|Unset Guard|bypass_check|type-in-type|impredicative-set|"
                       r"Admit Obligations|Unset Positivity|Unset Universe)\b")


def strip_comments(text):
    """Coq source without its comments (nested); string literals are kept as they are."""
    out, i, depth, n, instr = [], 0, 0, len(text), False
    while i < n:
        c = text[i]
        if depth == 0 and c == '"':
            instr = not instr
            out.append(c)
            i += 1
            continue
        if not instr and text.startswith("(*", i):
            depth += 1
            i += 2
            continue
        if not instr and depth > 0 and text.startswith("*)", i):
            depth -= 1
            i += 2
            continue
        if depth == 0 or c == "\n":
            out.append(c)
        i += 1
    return "".join(out)


def grep_forbidden(vfiles=None):
    """Declared axioms, admitted proofs, switched-off kernel checks in the given .v files (default: all)."""
    bad = []
    for v in (vfiles if vfiles is not None else all_vfiles()):
        p = os.path.join(COQ, v)
        if not os.path.exists(p):
            continue
        for i, line in enumerate(strip_comments(open(p).read()).splitlines(), 1):
            if FORBIDDEN.search(line):
                bad.append("%s:%d:%s" % (v, i, line.strip()[:120]))
    return bad


def coq_check_props(prop_v, runners=(), timeout=900):
    """Build the model runners (definitions only; needed by the correspondence even when a proof
    breaks), then the cone of Props/Cxx.v, then compile Props/Cxx.v afresh capturing Print Assumptions.
    Returns dict(ok, log, obligations, discharged, axioms, theorems, failed_file, runners_ok)."""
    rok, rlog = (True, "")
    if runners:
        rok, rlog = coq_make(["-k"] + [r + "o" for r in runners], timeout=timeout)
    cone = coq_cone(prop_v)
    nob, names = count_obligations(cone)
    ok, mlog = coq_make(["-k"] + [c + "o" for c in cone], timeout=timeout)
    res = dict(ok=ok, log=mlog[-6000:], obligations=nob, discharged=0, axioms=[], theorems=[], failed_file=None,
               cone=cone, runners_ok=rok, runners_log=rlog[-3000:])
    built = [c for c in cone if os.path.exists(os.path.join(COQ, c + "o")) and
             os.path.getmtime(os.path.join(COQ, c + "o")) >= os.path.getmtime(os.path.join(COQ, c))]
    res["discharged"] = count_obligations(built)[0]
    if not ok:
        m = re.search(r'File "\./([^"]+)", line (\d+)', mlog)
        if m:
            res["failed_file"] = "%s:%s" % (m.group(1), m.group(2))
        em = re.search(r"Error:(.*?)(?:\n\n|\Z)", mlog, re.S)
        res["error"] = em.group(1).strip()[:1500] if em else mlog[-1500:]
        return res
    # fresh compile of the property file to capture Print Assumptions output
    with Lock("coq"):
        p = sh(["timeout", str(timeout), "coqc", "-Q", ".", "GMQ", prop_v], cwd=COQ, timeout=timeout + 30)
    out = p.stdout + p.stderr
    if p.returncode != 0:
        res["ok"] = False
        res["error"] = out[-1500:]
        res["failed_file"] = prop_v
        return res
    res["theorems"] = [m.group(2) for m in _STMT.finditer(open(os.path.join(COQ, prop_v)).read())]
    axioms = set()
    closed = len(re.findall(r"Closed under the global context", out))
    for blk in re.findall(r"Axioms:\n((?:.+\n?)+?)(?:\n|\Z)", out):
        for l in blk.splitlines():
            m = re.match(r"\s*([A-Za-z0-9_.']+)\s*:", l)
            if m:
                axioms.add(m.group(1))
    res["axioms"] = sorted(axioms)
    res["closed"] = closed
    # the development declares no axiom and uses none: an axiom under a property theorem, or a forbidden word anywhere in
    # the files the property rests on, breaks the obligation
    bad = grep_forbidden(cone)
    if axioms or bad:
        res["ok"] = False
        res["failed_file"] = prop_v
        res["error"] = ("Print Assumptions reports axioms %s; " % sorted(axioms) if axioms else "") + \
                       ("forbidden words: %s" % "; ".join(bad[:5]) if bad else "")
    return res


def coq_eval(tag, text, timeout=900):
    """Compile a scratch .v file (model evaluation inside Coq, vm_compute). Returns stdout."""
    d = workdir("eval-" + tag)
    try:
        f = os.path.join(d, "cases.v")
        open(f, "w").write(text)
        p = sh(["timeout", str(timeout), "coqc", "-Q", COQ, "GMQ", f], cwd=d, timeout=timeout + 30)
        if p.returncode != 0 and not (p.stdout + p.stderr).strip():
            # killed by the time limit or by the machine (no message from coqc): once more, with twice the time
            p = sh(["timeout", str(2 * timeout), "coqc", "-Q", COQ, "GMQ", f], cwd=d, timeout=2 * timeout + 30)
        if p.returncode != 0:
            raise Infra("model evaluation failed (coqc, exit %d):\n" % p.returncode + (p.stdout + p.stderr)[-3000:])
        return p.stdout
    finally:
        shutil.rmtree(d, ignore_errors=True)


def parse_coq_list(out, name):
    """Parse 'name = [a; b; c]\n : list nat' printed by `Print name.` -> list of strings."""
    m = re.search(re.escape(name) + r"\s*=\s*(.*?)\n\s*:\s", out, re.S)
    if not m:
        raise Infra("cannot find %s in coq output:\n%s" % (name, out[-2000:]))
    body = m.group(1).strip()
    body = re.sub(r"\s+", " ", body)
    if body in ("[]", "nil"):
        return []
    if body.startswith("[") and body.endswith("]"):
        body = body[1:-1]
    return [x.strip() for x in body.split(";") if x.strip()]


# ---------------------------------------------------------------- harness
def build_harness(name, tags=BUILD_TAG):
    """Build harness/cmd/<name> against REPO's current working tree with the hook tag on.
    The shared harness/go.mod is never rewritten: a private -modfile under .work carries the
    `replace => REPO` (so checks pointed at a scratch worktree through VERIF_REPO cannot disturb others).
    Returns (exe, "") or (None, compiler output)."""
    tagdir = hashlib.sha1(REPO.encode()).hexdigest()[:10]
    moddir = os.path.join(WORK, "gomod-" + tagdir)
    with Lock("harness-" + tagdir):
        os.makedirs(moddir, exist_ok=True)
        gomod = open(os.path.join(HARNESS, "go.mod")).read()
        gomod = re.sub(r"replace github.com/valinurovam/garagemq => \S+", "replace github.com/valinurovam/garagemq => " + REPO, gomod)
        modfile = os.path.join(moddir, "go.mod")
        if not os.path.exists(modfile) or open(modfile).read() != gomod:
            open(modfile, "w").write(gomod)
        shutil.copyfile(os.path.join(REPO, "go.sum"), os.path.join(moddir, "go.sum"))
        suffix = "" if REPO == "/repo" else "-" + tagdir
        exe = os.path.join(HARNESS, "bin", name + suffix)
        p = sh(["go", "build", "-modfile", modfile, "-tags", tags, "-o", exe, "./cmd/" + name], cwd=HARNESS, env=GOENV, timeout=900)
        if p.returncode != 0:
            return None, p.stderr[-4000:]
        return exe, ""


def harness(exe, args, timeout=900, input=None):
    p = sh([exe] + args, timeout=timeout, input=input)
    if p.returncode != 0:
        raise Infra("harness %s failed: %s" % (args[:2], (p.stdout + p.stderr)[-3000:]))
    return p.stdout


# ---------------------------------------------------------------- findings / verdicts
def known_findings(prop):
    out = []
    p = os.path.join(VERIF, "known_findings.jsonl")
    if os.path.exists(p):
        for line in open(p):
            line = line.strip()
            if not line or line.startswith("#") or line.startswith("fixed:"):
                continue
            try:
                e = json.loads(line)
            except Exception:
                continue
            if prop in e.get("properties", [e.get("property")]) and e.get("status", "open") == "open":
                out.append(e)
    return out


def write_replay(prop, seed, payload):
    d = os.path.join(VERIF, "replays")
    os.makedirs(d, exist_ok=True)
    n = 0
    while True:
        p = os.path.join(d, "%s-%s-%d-%d.json" % (prop, seed, int(time.time()), n))
        if not os.path.exists(p):
            break
        n += 1
    json.dump(payload, open(p, "w"), indent=1, default=str)
    return p


class Result:
    """Accumulates what a check did; writes evidence; prints verdict lines."""

    def __init__(self, prop, tier, seed):
        self.prop, self.tier, self.seed = prop, tier, seed
        self.t0 = time.time()
        self.cov = dict(obligations=0, discharged=0, checker_cmd="", trusted_base=[], evaluations=0,
                        distinct_nontrivial=0, rule="", samples=[], traces_validated_against_impl=0)
        self.assumptions = []
        self.violations = []   # (replay_path, no_input_found, text)
        self.known = []
        self.notes = []

    def add_proof(self, pr, checker_cmd):
        self.cov["obligations"] += pr["obligations"]
        self.cov["discharged"] += pr["discharged"]
        self.cov["checker_cmd"] = checker_cmd
        self.cov.setdefault("theorems", [])
        self.cov["theorems"] += pr.get("theorems", [])
        self.cov["axioms_reported_by_Print_Assumptions"] = sorted(set(self.cov.get("axioms_reported_by_Print_Assumptions", [])) | set(pr.get("axioms", [])))
        self.cov["print_assumptions_closed_count"] = self.cov.get("print_assumptions_closed_count", 0) + pr.get("closed", 0)

    def violation(self, payload, found_input, what):
        payload = dict(payload, property=self.prop, tier=self.tier, seed=self.seed, what=what,
                       failing_input_found=bool(found_input))
        path = write_replay(self.prop, self.seed, payload)
        self.violations.append((path, not found_input, what))

    def known_finding(self, fid, what):
        self.known.append((fid, what))

    def finish(self):
        ev = dict(property_id=self.prop, tier=self.tier, seed=int(self.seed), level="proof",
                  coverage=self.cov, assumptions=self.assumptions, wall_s=round(time.time() - self.t0, 2),
                  violations=len(self.violations))
        if self.notes:
            ev["coverage"]["notes"] = self.notes
        if self.known:
            ev["coverage"]["known_findings_reproduced"] = [k[0] for k in self.known]
        os.makedirs(os.path.join(VERIF, "evidence"), exist_ok=True)
        json.dump(ev, open(os.path.join(VERIF, "evidence", self.prop + ".json"), "w"), indent=1, default=str)
        for fid, what in self.known:
            print("KNOWN-FINDING: property=%s %s %s" % (self.prop, fid, what))
        for path, nofound, what in self.violations:
            log("violation:", what)
            print("VIOLATION property=%s replay=%s%s" % (self.prop, path, " no-failing-input-found" if nofound else ""))
        sys.stdout.flush()
        return 1 if self.violations else 0


def also_run(res, modname, func="run", why=""):
    """Run the check of a component that the property also rests on (its code is among the property's anchors) and fold
    its verdict into this one: violations count as violations of this property, known findings are repeated when they
    are listed for this property, the work done is recorded under coverage.also_ran."""
    import importlib
    mod = importlib.import_module(modname)
    sub = Result(res.prop, res.tier, res.seed)
    getattr(mod, func)(sub)
    res.violations += sub.violations
    mine = {k.get("id") for k in known_findings(res.prop)}
    for fid, what in sub.known:
        if fid in mine and fid not in [k[0] for k in res.known]:
            res.known.append((fid, what))
    res.cov["obligations"] += sub.cov.get("obligations", 0)
    res.cov["discharged"] += sub.cov.get("discharged", 0)
    res.cov.setdefault("also_ran", {})["%s.%s" % (modname, func)] = {
        "why": why, "obligations": sub.cov.get("obligations", 0), "discharged": sub.cov.get("discharged", 0),
        "evaluations": sub.cov.get("evaluations", 0), "traces_validated_against_impl": sub.cov.get("traces_validated_against_impl", 0),
        "violations": len(sub.violations), "known_findings_reproduced": [k[0] for k in sub.known]}


TRUSTED_BASE_COMMON = [
    "Coq 8.16.1 kernel (coqc; vm_compute used for closed computations; no native_compute)",
    "no axioms declared in the development; Print Assumptions output recorded under each property theorem",
    "the Go translators under /verif/translator (go/ast) that regenerate coq/**/gen/*.v from /repo on every run",
    "the correspondence harness /verif/harness (differential runs of the hand-written model against /repo built with -tags verif): testing, covers only what was run",
]
