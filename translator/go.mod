module gmqverif/translator

go 1.19
