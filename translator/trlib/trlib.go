// gmqtr regenerates the table-like parts of the Coq model from /repo's current
// source (go/ast) and prints a JSON status per generated file. A generator that
// meets a shape it does not understand reports "unrecognised" with a reason and
// still emits a file (with the fallback the hand model needs to compile), so
// that the property then stands on the hand model + correspondence alone.
package trlib

import (
	"crypto/sha256"
	"encoding/hex"
	"encoding/json"
	"flag"
	"fmt"
	"go/ast"
	"go/format"
	"go/parser"
	"go/token"
	"os"
	"path/filepath"
	"sort"
	"strings"
)

type status struct {
	Status string `json:"status"` // ok | unrecognised
	Detail string `json:"detail,omitempty"`
}

type Ctx struct {
	Repo   string
	Out    string
	Fset   *token.FileSet
	Status map[string]*status
	Shapes map[string]string // function -> hash of normalised source
}

type Generator func(c *Ctx) error

func (c *Ctx) Parse(rel string) (*ast.File, error) {
	return parser.ParseFile(c.Fset, filepath.Join(c.Repo, rel), nil, parser.ParseComments)
}

func (c *Ctx) Write(rel string, content string) error {
	p := filepath.Join(c.Out, rel)
	if err := os.MkdirAll(filepath.Dir(p), 0o755); err != nil {
		return err
	}
	return os.WriteFile(p, []byte(content), 0o644)
}

func (c *Ctx) Ok(rel string) { c.Status[rel] = &status{Status: "ok"} }
func (c *Ctx) Unrec(rel string, why string) {
	c.Status[rel] = &status{Status: "unrecognised", Detail: why}
}

// funcDecl finds a function or method by name ("Type.Method" or "func").
func FuncDecl(f *ast.File, name string) *ast.FuncDecl {
	for _, d := range f.Decls {
		fd, ok := d.(*ast.FuncDecl)
		if !ok {
			continue
		}
		n := fd.Name.Name
		if fd.Recv != nil && len(fd.Recv.List) == 1 {
			t := fd.Recv.List[0].Type
			if st, ok := t.(*ast.StarExpr); ok {
				t = st.X
			}
			if id, ok := t.(*ast.Ident); ok {
				n = id.Name + "." + n
			}
		}
		if n == name {
			return fd
		}
	}
	return nil
}

// shape returns a hash of the function's source with comments and formatting normalised.
func (c *Ctx) Shape(fd *ast.FuncDecl) string {
	var sb strings.Builder
	cp := *fd
	cp.Doc = nil
	_ = format.Node(&sb, token.NewFileSet(), &cp)
	h := sha256.Sum256([]byte(sb.String()))
	return hex.EncodeToString(h[:8])
}

func (c *Ctx) RecordShapes(rel string, f *ast.File, names ...string) {
	for _, n := range names {
		fd := FuncDecl(f, n)
		if fd == nil {
			c.Shapes[rel+":"+n] = "missing"
			continue
		}
		c.Shapes[rel+":"+n] = c.Shape(fd)
	}
}

func ExprString(e ast.Expr) string {
	var sb strings.Builder
	_ = format.Node(&sb, token.NewFileSet(), e)
	return sb.String()
}

func CoqBool(b bool) string {
	if b {
		return "true"
	}
	return "false"
}

func CoqString(s string) string {
	// Coq string literal: double the quotes
	return "\"" + strings.ReplaceAll(s, "\"", "\"\"") + "\""
}

// Main runs the given generators and prints the JSON status.
func Main(generators map[string]Generator) {
	repo := flag.String("repo", "/repo", "repository root")
	out := flag.String("out", "", "output directory (mirrors /verif/coq)")
	flag.Parse()
	if *out == "" {
		fmt.Fprintln(os.Stderr, "need -out")
		os.Exit(2)
	}
	c := &Ctx{Repo: *repo, Out: *out, Fset: token.NewFileSet(), Status: map[string]*status{}, Shapes: map[string]string{}}
	names := make([]string, 0, len(generators))
	for n := range generators {
		names = append(names, n)
	}
	sort.Strings(names)
	for _, n := range names {
		if err := generators[n](c); err != nil {
			c.Status["generator:"+n] = &status{Status: "unrecognised", Detail: err.Error()}
		}
	}
	res := map[string]interface{}{"files": c.Status, "shapes": c.Shapes}
	b, _ := json.MarshalIndent(res, "", " ")
	fmt.Println(string(b))
}
