package main

// Translator for the stores component (C09, C17 isolation, C04 core, C05 not-early).
//
// coq/Store/gen/KeyFmtGen.v : the key builders of srvstorage and msgstorage AS DATA
//   (Sprintf format strings and prefix constants per function, binding.GetName's Join,
//   getVhostFromKey / getQueueFromKey Split separator and index, makeKey's concatenation,
//   the prefix expression of each prefix-scanning method).  Store/SrvStore.v and
//   Store/MsgStore.v build every key by INTERPRETING these values.
// coq/Store/gen/OptsGen.v : engine options C04 depends on (badger SyncWrites, buntdb
//   SyncPolicy), the persist ticker period, which wrapper methods are stubs, and the
//   statement order facts of msgstorage.persist (batch before confirm emission, ...).
//
// Every value has a fallback equal to what the unchanged tree says; an unfamiliar shape
// marks the file "unrecognised" (the property then stands on the hand model + correspondence).

import (
	"fmt"
	"go/ast"
	"go/format"
	"go/parser"
	"go/token"
	"os"
	"os/exec"
	"path/filepath"
	"regexp"
	"strconv"
	"strings"

	"gmqverif/translator/trlib"
)

func main() {
	trlib.Main(map[string]trlib.Generator{"stores-keyfmt": genKeyFmt, "stores-opts": genOpts})
}

// ---------------------------------------------------------------- helpers

var (
	reDelAdd      = regexp.MustCompile(`delete\(add, \w+\)`)
	reDelUpdate   = regexp.MustCompile(`delete\(update, \w+\)`)
	reDelDel      = regexp.MustCompile(`delete\(del, \w+\)`)
	rePurgeExact  = regexp.MustCompile(`\w+ == makeKey\(\w+\.ID, queue\)`)
	rePurgeSetDel = regexp.MustCompile(`storage\.del\[\w+\] = \w+`)
	rePurgeDelUpd = regexp.MustCompile(`delete\(storage\.update, \w+\)`)
	reSettled     = regexp.MustCompile(`settled = append\(settled, \w+\)`)
)

type problems struct{ list []string }

func (p *problems) add(format string, a ...interface{}) {
	p.list = append(p.list, fmt.Sprintf(format, a...))
}

func strLit(e ast.Expr) (string, bool) {
	if bl, ok := e.(*ast.BasicLit); ok && bl.Kind == token.STRING {
		s, err := strconv.Unquote(bl.Value)
		if err == nil {
			return s, true
		}
	}
	return "", false
}

func intLit(e ast.Expr) (int, bool) {
	if bl, ok := e.(*ast.BasicLit); ok && bl.Kind == token.INT {
		n, err := strconv.Atoi(bl.Value)
		if err == nil {
			return n, true
		}
	}
	return 0, false
}

func stringConsts(f *ast.File) map[string]string {
	out := map[string]string{}
	for _, d := range f.Decls {
		gd, ok := d.(*ast.GenDecl)
		if !ok || gd.Tok != token.CONST {
			continue
		}
		for _, sp := range gd.Specs {
			vs := sp.(*ast.ValueSpec)
			for i, n := range vs.Names {
				if i < len(vs.Values) {
					if s, ok := strLit(vs.Values[i]); ok {
						out[n.Name] = s
					}
				}
			}
		}
	}
	return out
}

// isCall reports whether e is a call pkg.fn(...) (or fn(...) when pkg == "").
func isCall(e ast.Expr, pkg, fn string) (*ast.CallExpr, bool) {
	c, ok := e.(*ast.CallExpr)
	if !ok {
		return nil, false
	}
	if pkg == "" {
		if id, ok := c.Fun.(*ast.Ident); ok && id.Name == fn {
			return c, true
		}
		return nil, false
	}
	if sel, ok := c.Fun.(*ast.SelectorExpr); ok && sel.Sel.Name == fn {
		if id, ok := sel.X.(*ast.Ident); ok && id.Name == pkg {
			return c, true
		}
	}
	return nil, false
}

// findCalls collects every call pkg.fn inside node.
func findCalls(node ast.Node, pkg, fn string) []*ast.CallExpr {
	var out []*ast.CallExpr
	ast.Inspect(node, func(n ast.Node) bool {
		if e, ok := n.(ast.Expr); ok {
			if c, ok := isCall(e, pkg, fn); ok {
				out = append(out, c)
			}
		}
		return true
	})
	return out
}

type srvFmt struct{ format, prefix string }

// sprintfKey finds `fmt.Sprintf(<lit>, <constIdent>, ...)` in fd.
func sprintfKey(fd *ast.FuncDecl, consts map[string]string, nargs int) (srvFmt, error) {
	if fd == nil {
		return srvFmt{}, fmt.Errorf("function missing")
	}
	calls := findCalls(fd.Body, "fmt", "Sprintf")
	if len(calls) != 1 {
		return srvFmt{}, fmt.Errorf("%s: expected exactly one fmt.Sprintf, found %d", fd.Name.Name, len(calls))
	}
	c := calls[0]
	if len(c.Args) != nargs+1 {
		return srvFmt{}, fmt.Errorf("%s: Sprintf has %d arguments, expected %d", fd.Name.Name, len(c.Args)-1, nargs)
	}
	f, ok := strLit(c.Args[0])
	if !ok {
		return srvFmt{}, fmt.Errorf("%s: Sprintf format is not a string literal", fd.Name.Name)
	}
	var pfx string
	switch a := c.Args[1].(type) {
	case *ast.Ident:
		v, ok := consts[a.Name]
		if !ok {
			return srvFmt{}, fmt.Errorf("%s: first Sprintf argument %s is not a string constant of the file", fd.Name.Name, a.Name)
		}
		pfx = v
	default:
		if s, ok := strLit(c.Args[1]); ok {
			pfx = s
		} else {
			return srvFmt{}, fmt.Errorf("%s: first Sprintf argument has an unfamiliar shape", fd.Name.Name)
		}
	}
	// second argument must be the vhost parameter, third (if any) a GetName() call
	if id, ok := c.Args[2].(*ast.Ident); !ok || id.Name != "vhost" {
		return srvFmt{}, fmt.Errorf("%s: second Sprintf argument is not the vhost parameter", fd.Name.Name)
	}
	if nargs == 3 {
		ce, ok := c.Args[3].(*ast.CallExpr)
		if !ok {
			return srvFmt{}, fmt.Errorf("%s: third Sprintf argument is not a GetName() call", fd.Name.Name)
		}
		sel, ok := ce.Fun.(*ast.SelectorExpr)
		if !ok || sel.Sel.Name != "GetName" {
			return srvFmt{}, fmt.Errorf("%s: third Sprintf argument is not a GetName() call", fd.Name.Name)
		}
	}
	return srvFmt{f, pfx}, nil
}

// scanPrefix finds `bytes.HasPrefix(key, []byte(<const>))` in fd and whether the vhost filter
// `getVhostFromKey(string(key)) != vhost` is present.
func scanPrefix(fd *ast.FuncDecl, consts map[string]string, wantVhostFilter bool) (string, error) {
	if fd == nil {
		return "", fmt.Errorf("function missing")
	}
	calls := findCalls(fd.Body, "bytes", "HasPrefix")
	if len(calls) != 1 || len(calls[0].Args) != 2 {
		return "", fmt.Errorf("%s: expected exactly one bytes.HasPrefix", fd.Name.Name)
	}
	conv, ok := calls[0].Args[1].(*ast.CallExpr)
	if !ok || len(conv.Args) != 1 {
		return "", fmt.Errorf("%s: HasPrefix argument is not []byte(const)", fd.Name.Name)
	}
	var pfx string
	if id, ok := conv.Args[0].(*ast.Ident); ok {
		v, ok := consts[id.Name]
		if !ok {
			return "", fmt.Errorf("%s: HasPrefix argument %s is not a string constant", fd.Name.Name, id.Name)
		}
		pfx = v
	} else if s, ok := strLit(conv.Args[0]); ok {
		pfx = s
	} else {
		return "", fmt.Errorf("%s: HasPrefix argument has an unfamiliar shape", fd.Name.Name)
	}
	// the HasPrefix test must be negated and lead to a bare return
	neg := false
	ast.Inspect(fd.Body, func(n ast.Node) bool {
		if u, ok := n.(*ast.UnaryExpr); ok && u.Op == token.NOT {
			if _, ok := isCall(u.X, "bytes", "HasPrefix"); ok {
				neg = true
			}
		}
		return true
	})
	if !neg {
		return "", fmt.Errorf("%s: HasPrefix test is not of the form `if !bytes.HasPrefix(..) .. return`", fd.Name.Name)
	}
	vf := false
	ast.Inspect(fd.Body, func(n ast.Node) bool {
		if b, ok := n.(*ast.BinaryExpr); ok && b.Op == token.NEQ {
			if _, ok := isCall(b.X, "", "getVhostFromKey"); ok {
				if id, ok := b.Y.(*ast.Ident); ok && id.Name == "vhost" {
					vf = true
				}
			}
		}
		return true
	})
	if vf != wantVhostFilter {
		return "", fmt.Errorf("%s: vhost filter `getVhostFromKey(string(key)) != vhost` present=%v, expected %v", fd.Name.Name, vf, wantVhostFilter)
	}
	return pfx, nil
}

// splitter recognises `parts := strings.Split(key, <lit>); return parts[<int>]`.
func splitter(fd *ast.FuncDecl) (string, int, error) {
	if fd == nil {
		return "", 0, fmt.Errorf("function missing")
	}
	if len(fd.Body.List) != 2 {
		return "", 0, fmt.Errorf("%s: body is not `parts := strings.Split(..); return parts[i]`", fd.Name.Name)
	}
	as, ok := fd.Body.List[0].(*ast.AssignStmt)
	if !ok || len(as.Rhs) != 1 {
		return "", 0, fmt.Errorf("%s: first statement is not an assignment", fd.Name.Name)
	}
	c, ok := isCall(as.Rhs[0], "strings", "Split")
	if !ok || len(c.Args) != 2 {
		return "", 0, fmt.Errorf("%s: not strings.Split", fd.Name.Name)
	}
	sep, ok := strLit(c.Args[1])
	if !ok {
		return "", 0, fmt.Errorf("%s: Split separator is not a literal", fd.Name.Name)
	}
	rt, ok := fd.Body.List[1].(*ast.ReturnStmt)
	if !ok || len(rt.Results) != 1 {
		return "", 0, fmt.Errorf("%s: second statement is not a return", fd.Name.Name)
	}
	ix, ok := rt.Results[0].(*ast.IndexExpr)
	if !ok {
		return "", 0, fmt.Errorf("%s: return is not an index expression", fd.Name.Name)
	}
	n, ok := intLit(ix.Index)
	if !ok {
		return "", 0, fmt.Errorf("%s: index is not an integer literal", fd.Name.Name)
	}
	return sep, n, nil
}

// part of a string concatenation
type kpart struct {
	kind string // lit | queue | id
	lit  string
}

type idFmt struct {
	signed bool
	base   int
}

// concatParts flattens a + b + c into parts; identifiers named queueVar are the queue,
// strconv.FormatInt(int64(idVar), b) / strconv.FormatUint(idVar, b) the id.
func concatParts(e ast.Expr, queueVar string, idf *idFmt) ([]kpart, error) {
	switch x := e.(type) {
	case *ast.ParenExpr:
		return concatParts(x.X, queueVar, idf)
	case *ast.BinaryExpr:
		if x.Op != token.ADD {
			return nil, fmt.Errorf("operator %s in key expression", x.Op)
		}
		l, err := concatParts(x.X, queueVar, idf)
		if err != nil {
			return nil, err
		}
		r, err := concatParts(x.Y, queueVar, idf)
		if err != nil {
			return nil, err
		}
		return append(l, r...), nil
	case *ast.BasicLit:
		if s, ok := strLit(x); ok {
			return []kpart{{kind: "lit", lit: s}}, nil
		}
	case *ast.Ident:
		if x.Name == queueVar {
			return []kpart{{kind: "queue"}}, nil
		}
	case *ast.CallExpr:
		if c, ok := isCall(x, "strconv", "FormatInt"); ok && len(c.Args) == 2 {
			if b, ok := intLit(c.Args[1]); ok {
				if conv, ok := c.Args[0].(*ast.CallExpr); ok && len(conv.Args) == 1 {
					if id, ok := conv.Fun.(*ast.Ident); ok && id.Name == "int64" {
						if idf != nil {
							idf.signed, idf.base = true, b
						}
						return []kpart{{kind: "id"}}, nil
					}
				}
			}
		}
		if c, ok := isCall(x, "strconv", "FormatUint"); ok && len(c.Args) == 2 {
			if b, ok := intLit(c.Args[1]); ok {
				if idf != nil {
					idf.signed, idf.base = false, b
				}
				return []kpart{{kind: "id"}}, nil
			}
		}
	}
	return nil, fmt.Errorf("unfamiliar operand %s in key expression", trlib.ExprString(e))
}

func coqParts(ps []kpart) string {
	var xs []string
	for _, p := range ps {
		switch p.kind {
		case "lit":
			xs = append(xs, "KLit "+trlib.CoqString(p.lit))
		case "queue":
			xs = append(xs, "KQueue")
		case "id":
			xs = append(xs, "KId")
		}
	}
	return "[" + strings.Join(xs, "; ") + "]"
}

// prefixExpr finds the prefix expression of a prefix-scanning method:
// `prefix := <concat>` or `prefix := []byte(<concat>)`.
func prefixExpr(fd *ast.FuncDecl) ([]kpart, error) {
	if fd == nil {
		return nil, fmt.Errorf("function missing")
	}
	for _, st := range fd.Body.List {
		as, ok := st.(*ast.AssignStmt)
		if !ok || len(as.Lhs) != 1 || len(as.Rhs) != 1 {
			continue
		}
		if id, ok := as.Lhs[0].(*ast.Ident); !ok || id.Name != "prefix" {
			continue
		}
		e := as.Rhs[0]
		if conv, ok := e.(*ast.CallExpr); ok && len(conv.Args) == 1 {
			if _, isArr := conv.Fun.(*ast.ArrayType); isArr {
				e = conv.Args[0]
			}
		}
		return concatParts(e, "queue", nil)
	}
	return nil, fmt.Errorf("%s: no `prefix := ...` assignment", fd.Name.Name)
}

// usesPrefixVar checks that the db call named method receives the variable `prefix`
// (directly or as []byte(prefix)) as its first argument.
func usesPrefixVar(fd *ast.FuncDecl, method string) bool {
	found := false
	ast.Inspect(fd.Body, func(n ast.Node) bool {
		c, ok := n.(*ast.CallExpr)
		if !ok {
			return true
		}
		sel, ok := c.Fun.(*ast.SelectorExpr)
		if !ok || sel.Sel.Name != method || len(c.Args) == 0 {
			return true
		}
		a := c.Args[0]
		if conv, ok := a.(*ast.CallExpr); ok && len(conv.Args) == 1 {
			a = conv.Args[0]
		}
		if id, ok := a.(*ast.Ident); ok && id.Name == "prefix" {
			found = true
		}
		return true
	})
	return found
}

// ---------------------------------------------------------------- KeyFmtGen.v

const keyFmtRel = "Store/gen/KeyFmtGen.v"

func genKeyFmt(c *trlib.Ctx) error {
	var pb problems
	// fallbacks = the unchanged tree
	srv := map[string]srvFmt{
		"AddVhost": {"%s.%s", "server.vhost"}, "AddQueue": {"%s.%s.%s", "vhost.queue"}, "DelQueue": {"%s.%s.%s", "vhost.queue"},
		"AddExchange": {"%s.%s.%s", "vhost.exchange"}, "DelExchange": {"%s.%s.%s", "vhost.exchange"},
		"AddBinding": {"%s.%s.%s", "vhost.binding"}, "DelBinding": {"%s.%s.%s", "vhost.binding"},
	}
	scan := map[string]string{"GetVhosts": "server.vhost", "GetVhostQueues": "vhost.queue", "GetVhostExchanges": "vhost.exchange", "GetVhostBindings": "vhost.binding"}
	vhSep, vhIdx := ".", 2
	bindParts, bindSep := []string{"Queue", "Exchange", "RoutingKey"}, "_"
	mk := []kpart{{"lit", "msg."}, {"queue", ""}, {"lit", "."}, {"id", ""}}
	idf := idFmt{true, 10}
	pfx := map[string][]kpart{}
	for _, n := range []string{"IterateByQueue", "IterateByQueueFromMsgID", "GetQueueLength", "PurgeQueue"} {
		pfx[n] = []kpart{{"lit", "msg."}, {"queue", ""}, {"lit", "."}}
	}
	fromUsesMakeKey := true
	qSep, qIdx := ".", 1

	if f, err := c.Parse("srvstorage/srvstorage.go"); err != nil {
		pb.add("srvstorage.go: %v", err)
	} else {
		names := []string{"SrvStorage.AddVhost", "SrvStorage.GetVhosts", "SrvStorage.AddBinding", "SrvStorage.DelBinding", "SrvStorage.AddExchange",
			"SrvStorage.DelExchange", "SrvStorage.AddQueue", "SrvStorage.DelQueue", "SrvStorage.GetVhostQueues", "SrvStorage.GetVhostExchanges",
			"SrvStorage.GetVhostBindings", "getVhostFromKey"}
		c.RecordShapes("srvstorage/srvstorage.go", f, names...)
		consts := stringConsts(f)
		for fn := range srv {
			nargs := 3
			if fn == "AddVhost" {
				nargs = 2
			}
			v, err := sprintfKey(trlib.FuncDecl(f, "SrvStorage."+fn), consts, nargs)
			if err != nil {
				pb.add("srvstorage %s: %v", fn, err)
				continue
			}
			srv[fn] = v
		}
		for fn := range scan {
			v, err := scanPrefix(trlib.FuncDecl(f, "SrvStorage."+fn), consts, fn != "GetVhosts")
			if err != nil {
				pb.add("srvstorage %s: %v", fn, err)
				continue
			}
			scan[fn] = v
		}
		if s, i, err := splitter(trlib.FuncDecl(f, "getVhostFromKey")); err != nil {
			pb.add("srvstorage getVhostFromKey: %v", err)
		} else {
			vhSep, vhIdx = s, i
		}
	}

	if f, err := c.Parse("binding/binding.go"); err != nil {
		pb.add("binding.go: %v", err)
	} else {
		c.RecordShapes("binding/binding.go", f, "Binding.GetName", "Binding.Marshal", "Binding.Unmarshal")
		fd := trlib.FuncDecl(f, "Binding.GetName")
		ok := false
		if fd != nil {
			calls := findCalls(fd.Body, "strings", "Join")
			if len(calls) == 1 && len(calls[0].Args) == 2 {
				if cl, isCl := calls[0].Args[0].(*ast.CompositeLit); isCl {
					var parts []string
					good := true
					for _, e := range cl.Elts {
						sel, isSel := e.(*ast.SelectorExpr)
						if !isSel || (sel.Sel.Name != "Queue" && sel.Sel.Name != "Exchange" && sel.Sel.Name != "RoutingKey") {
							good = false
							break
						}
						parts = append(parts, sel.Sel.Name)
					}
					if sep, isLit := strLit(calls[0].Args[1]); isLit && good {
						bindParts, bindSep, ok = parts, sep, true
					}
				}
			}
		}
		if !ok {
			pb.add("binding GetName: not strings.Join([]string{b.<field>...}, <lit>)")
		}
	}

	if f, err := c.Parse("msgstorage/msgstorage.go"); err != nil {
		pb.add("msgstorage.go: %v", err)
	} else {
		c.RecordShapes("msgstorage/msgstorage.go", f, "makeKey", "getQueueFromKey", "MsgStorage.IterateByQueue", "MsgStorage.IterateByQueueFromMsgID",
			"MsgStorage.GetQueueLength", "MsgStorage.PurgeQueue", "MsgStorage.Add", "MsgStorage.Update", "MsgStorage.Del", "MsgStorage.persist")
		fd := trlib.FuncDecl(f, "makeKey")
		done := false
		if fd != nil && len(fd.Body.List) == 1 && fd.Type.Params != nil && len(fd.Type.Params.List) == 2 {
			if rt, ok := fd.Body.List[0].(*ast.ReturnStmt); ok && len(rt.Results) == 1 {
				qv := fd.Type.Params.List[1].Names[0].Name
				var idf2 idFmt
				if ps, err := concatParts(rt.Results[0], qv, &idf2); err == nil {
					mk, idf, done = ps, idf2, true
				} else {
					pb.add("msgstorage makeKey: %v", err)
					done = true
				}
			}
		}
		if !done {
			pb.add("msgstorage makeKey: not a single `return <concatenation>` of (id, queue)")
		}
		dbm := map[string]string{"IterateByQueue": "IterateByPrefix", "IterateByQueueFromMsgID": "IterateByPrefixFrom", "GetQueueLength": "KeysByPrefixCount", "PurgeQueue": "DeleteByPrefix"}
		for fn, m := range dbm {
			fd := trlib.FuncDecl(f, "MsgStorage."+fn)
			ps, err := prefixExpr(fd)
			if err != nil {
				pb.add("msgstorage %s: %v", fn, err)
				continue
			}
			if !usesPrefixVar(fd, m) {
				pb.add("msgstorage %s: db.%s is not called with the `prefix` variable", fn, m)
				continue
			}
			pfx[fn] = ps
		}
		// from := makeKey(msgID, queue)
		if fd := trlib.FuncDecl(f, "MsgStorage.IterateByQueueFromMsgID"); fd != nil {
			ok := false
			for _, st := range fd.Body.List {
				if as, isAs := st.(*ast.AssignStmt); isAs && len(as.Lhs) == 1 && len(as.Rhs) == 1 {
					if id, isId := as.Lhs[0].(*ast.Ident); isId && id.Name == "from" {
						if cl, isMk := isCall(as.Rhs[0], "", "makeKey"); isMk && len(cl.Args) == 2 {
							a0, ok0 := cl.Args[0].(*ast.Ident)
							a1, ok1 := cl.Args[1].(*ast.Ident)
							if ok0 && ok1 && a0.Name == "msgID" && a1.Name == "queue" {
								ok = true
							}
						}
					}
				}
			}
			if !ok {
				fromUsesMakeKey = false
				pb.add("msgstorage IterateByQueueFromMsgID: `from := makeKey(msgID, queue)` not found")
			}
		}
		if s, i, err := splitter(trlib.FuncDecl(f, "getQueueFromKey")); err != nil {
			pb.add("msgstorage getQueueFromKey: %v", err)
		} else {
			qSep, qIdx = s, i
		}
		// Add/Update/Del must key their map with makeKey(message.ID, queue)
		for _, fn := range []string{"Add", "Update", "Del"} {
			fd := trlib.FuncDecl(f, "MsgStorage."+fn)
			if fd == nil {
				pb.add("msgstorage %s missing", fn)
				continue
			}
			ok := false
			for _, cl := range findCalls(fd.Body, "", "makeKey") {
				if len(cl.Args) == 2 && trlib.ExprString(cl.Args[0]) == "message.ID" && trlib.ExprString(cl.Args[1]) == "queue" {
					ok = true
				}
			}
			if !ok {
				pb.add("msgstorage %s: map key is not makeKey(message.ID, queue)", fn)
			}
		}
	}

	var sb strings.Builder
	sb.WriteString("(* GENERATED by /verif/translator/cmd/stores from /repo/srvstorage/srvstorage.go, /repo/binding/binding.go,\n")
	sb.WriteString("   /repo/msgstorage/msgstorage.go. Do not edit. *)\n")
	sb.WriteString("From Coq Require Import String List NArith.\nFrom GMQ Require Import Store.KeyFmt.\nImport ListNotations.\nLocal Open Scope string_scope.\n\n")
	w := func(name string, v srvFmt) {
		fmt.Fprintf(&sb, "Definition %s : srv_keyfmt := {| kf_format := %s; kf_prefix := %s |}.\n", name, trlib.CoqString(v.format), trlib.CoqString(v.prefix))
	}
	sb.WriteString("(* srvstorage: key := fmt.Sprintf(kf_format, kf_prefix, vhost[, entity.GetName()]) *)\n")
	w("kf_add_vhost", srv["AddVhost"])
	w("kf_add_queue", srv["AddQueue"])
	w("kf_del_queue", srv["DelQueue"])
	w("kf_add_exchange", srv["AddExchange"])
	w("kf_del_exchange", srv["DelExchange"])
	w("kf_add_binding", srv["AddBinding"])
	w("kf_del_binding", srv["DelBinding"])
	sb.WriteString("(* srvstorage Get*: full Iterate filtered by bytes.HasPrefix(key, <this>) (and the vhost of the key) *)\n")
	fmt.Fprintf(&sb, "Definition scan_prefix_vhosts : string := %s.\n", trlib.CoqString(scan["GetVhosts"]))
	fmt.Fprintf(&sb, "Definition scan_prefix_queues : string := %s.\n", trlib.CoqString(scan["GetVhostQueues"]))
	fmt.Fprintf(&sb, "Definition scan_prefix_exchanges : string := %s.\n", trlib.CoqString(scan["GetVhostExchanges"]))
	fmt.Fprintf(&sb, "Definition scan_prefix_bindings : string := %s.\n", trlib.CoqString(scan["GetVhostBindings"]))
	sb.WriteString("(* getVhostFromKey: strings.Split(key, sp_sep)[sp_index] *)\n")
	fmt.Fprintf(&sb, "Definition vhost_from_key : splitter := {| sp_sep := %s; sp_index := %d |}.\n", trlib.CoqString(vhSep), vhIdx)
	sb.WriteString("(* binding.GetName: strings.Join(parts, sep) *)\n")
	var bps []string
	for _, p := range bindParts {
		bps = append(bps, map[string]string{"Queue": "BQueue", "Exchange": "BExchange", "RoutingKey": "BKey"}[p])
	}
	fmt.Fprintf(&sb, "Definition binding_name_parts : list bpart := [%s].\n", strings.Join(bps, "; "))
	fmt.Fprintf(&sb, "Definition binding_name_sep : string := %s.\n", trlib.CoqString(bindSep))
	sb.WriteString("(* msgstorage.makeKey and the prefix expression of each prefix-scanning method *)\n")
	fmt.Fprintf(&sb, "Definition msg_make_key : list kpart := %s.\n", coqParts(mk))
	fmt.Fprintf(&sb, "Definition msg_id_signed : bool := %s.\n", trlib.CoqBool(idf.signed))
	fmt.Fprintf(&sb, "Definition msg_id_base : N := %d.\n", idf.base)
	fmt.Fprintf(&sb, "Definition msg_prefix_iterate : list kpart := %s.\n", coqParts(pfx["IterateByQueue"]))
	fmt.Fprintf(&sb, "Definition msg_prefix_iterate_from : list kpart := %s.\n", coqParts(pfx["IterateByQueueFromMsgID"]))
	fmt.Fprintf(&sb, "Definition msg_prefix_length : list kpart := %s.\n", coqParts(pfx["GetQueueLength"]))
	fmt.Fprintf(&sb, "Definition msg_prefix_purge : list kpart := %s.\n", coqParts(pfx["PurgeQueue"]))
	fmt.Fprintf(&sb, "Definition msg_from_uses_make_key : bool := %s.\n", trlib.CoqBool(fromUsesMakeKey))
	sb.WriteString("(* getQueueFromKey *)\n")
	fmt.Fprintf(&sb, "Definition queue_from_key : splitter := {| sp_sep := %s; sp_index := %d |}.\n", trlib.CoqString(qSep), qIdx)

	if len(pb.list) > 0 {
		c.Unrec(keyFmtRel, strings.Join(pb.list, "; "))
	} else {
		c.Ok(keyFmtRel)
	}
	return c.Write(keyFmtRel, sb.String())
}

// ---------------------------------------------------------------- OptsGen.v

const optsRel = "Store/gen/OptsGen.v"

// isStub: the body has no statement besides an optional `return <literal>`.
func isStub(fd *ast.FuncDecl) bool {
	if fd == nil || fd.Body == nil {
		return false
	}
	for _, st := range fd.Body.List {
		rt, ok := st.(*ast.ReturnStmt)
		if !ok {
			return false
		}
		for _, r := range rt.Results {
			if _, ok := r.(*ast.BasicLit); !ok {
				if id, ok := r.(*ast.Ident); !ok || id.Name != "nil" {
					return false
				}
			}
		}
	}
	return true
}

func boolIdent(e ast.Expr) (bool, bool) {
	if id, ok := e.(*ast.Ident); ok {
		if id.Name == "true" {
			return true, true
		}
		if id.Name == "false" {
			return false, true
		}
	}
	return false, false
}

func moduleDir(repo, mod string) string {
	cmd := exec.Command("go", "list", "-m", "-f", "{{.Dir}}", mod)
	cmd.Dir = repo
	cmd.Env = append(os.Environ(), "GOFLAGS=-mod=mod", "GOPROXY=off", "GOSUMDB=off", "GOTOOLCHAIN=local")
	out, err := cmd.Output()
	if err != nil {
		return ""
	}
	return strings.TrimSpace(string(out))
}

func coqOptBool(known bool, v bool) string {
	if !known {
		return "None"
	}
	return "Some " + trlib.CoqBool(v)
}

func genOpts(c *trlib.Ctx) error {
	var pb problems
	// fallbacks = unchanged tree
	syncExplicitKnown, syncExplicit := true, true
	syncDefaultKnown, syncDefault := false, false
	buntAlways := true
	tickMs := 20
	stubs := map[string]bool{"Badger.IterateByPrefixFrom": false, "Badger.DeleteByPrefix": false, "Badger.KeysByPrefixCount": false, "Badger.IterateByPrefix": false,
		"BuntDB.IterateByPrefixFrom": true, "BuntDB.DeleteByPrefix": true, "BuntDB.KeysByPrefixCount": true, "BuntDB.IterateByPrefix": false}
	buntPattern, buntIgnoresLimit := true, true
	confirmAfterBatch, delCancelsAdd, delDropsUpdate, cancelledDelRemoved, swapUnderLock := true, true, true, true, true
	batchOrder := []string{"GAdd", "GUpdate", "GDel"}
	confirmGuard := true
	settledConfirmed, confirmCounts := true, true
	purgeWaits, purgeCancelsAdds, purgeDropsUpdates, closePersists := true, true, true, true

	if f, err := c.Parse("storage/storage_badger.go"); err != nil {
		pb.add("storage_badger.go: %v", err)
	} else {
		c.RecordShapes("storage/storage_badger.go", f, "NewBadger", "Badger.ProcessBatch", "Badger.Set", "Badger.Del", "Badger.Get", "Badger.Iterate",
			"Badger.IterateByPrefix", "Badger.IterateByPrefixFrom", "Badger.DeleteByPrefix", "Badger.KeysByPrefixCount")
		fd := trlib.FuncDecl(f, "NewBadger")
		if fd == nil {
			pb.add("NewBadger missing")
		} else {
			syncExplicitKnown = false
			unfamiliar := false
			ast.Inspect(fd.Body, func(n ast.Node) bool {
				switch x := n.(type) {
				case *ast.AssignStmt:
					for i, l := range x.Lhs {
						if sel, ok := l.(*ast.SelectorExpr); ok && sel.Sel.Name == "SyncWrites" && i < len(x.Rhs) {
							if b, ok := boolIdent(x.Rhs[i]); ok {
								syncExplicitKnown, syncExplicit = true, b
							} else {
								unfamiliar = true
							}
						}
					}
				case *ast.CallExpr:
					if sel, ok := x.Fun.(*ast.SelectorExpr); ok && sel.Sel.Name == "WithSyncWrites" && len(x.Args) == 1 {
						if b, ok := boolIdent(x.Args[0]); ok {
							syncExplicitKnown, syncExplicit = true, b
						} else {
							unfamiliar = true
						}
					}
				}
				return true
			})
			if unfamiliar {
				pb.add("NewBadger: SyncWrites set from a non-literal expression")
			}
			if len(findCalls(fd.Body, "badger", "DefaultOptions")) != 1 {
				pb.add("NewBadger: options do not start from badger.DefaultOptions")
			}
		}
		for _, m := range []string{"IterateByPrefixFrom", "DeleteByPrefix", "KeysByPrefixCount", "IterateByPrefix"} {
			fd := trlib.FuncDecl(f, "Badger."+m)
			if fd == nil {
				pb.add("Badger.%s missing", m)
				continue
			}
			stubs["Badger."+m] = isStub(fd)
		}
	}
	// library default of SyncWrites (badger.DefaultOptions)
	if dir := moduleDir(c.Repo, "github.com/dgraph-io/badger"); dir != "" {
		if of, err := parser.ParseFile(token.NewFileSet(), filepath.Join(dir, "options.go"), nil, 0); err == nil {
			if fd := trlib.FuncDecl(of, "DefaultOptions"); fd != nil {
				ast.Inspect(fd.Body, func(n ast.Node) bool {
					if kv, ok := n.(*ast.KeyValueExpr); ok {
						if id, ok := kv.Key.(*ast.Ident); ok && id.Name == "SyncWrites" {
							if b, ok := boolIdent(kv.Value); ok {
								syncDefaultKnown, syncDefault = true, b
							}
						}
					}
					return true
				})
			}
		}
	}

	if f, err := c.Parse("storage/storage_bunt.go"); err != nil {
		pb.add("storage_bunt.go: %v", err)
	} else {
		c.RecordShapes("storage/storage_bunt.go", f, "NewBuntDB", "BuntDB.ProcessBatch", "BuntDB.Set", "BuntDB.Del", "BuntDB.Get", "BuntDB.Iterate",
			"BuntDB.IterateByPrefix", "BuntDB.IterateByPrefixFrom", "BuntDB.DeleteByPrefix", "BuntDB.KeysByPrefixCount")
		fd := trlib.FuncDecl(f, "NewBuntDB")
		if fd == nil {
			pb.add("NewBuntDB missing")
		} else {
			buntAlways = false
			for _, cl := range findCallsSel(fd.Body, "SetConfig") {
				ast.Inspect(cl, func(n ast.Node) bool {
					if kv, ok := n.(*ast.KeyValueExpr); ok {
						if id, ok := kv.Key.(*ast.Ident); ok && id.Name == "SyncPolicy" {
							if sel, ok := kv.Value.(*ast.SelectorExpr); ok && sel.Sel.Name == "Always" {
								buntAlways = true
							}
						}
					}
					return true
				})
			}
		}
		for _, m := range []string{"IterateByPrefixFrom", "DeleteByPrefix", "KeysByPrefixCount", "IterateByPrefix"} {
			fd := trlib.FuncDecl(f, "BuntDB."+m)
			if fd == nil {
				pb.add("BuntDB.%s missing", m)
				continue
			}
			stubs["BuntDB."+m] = isStub(fd)
		}
		if fd := trlib.FuncDecl(f, "BuntDB.IterateByPrefix"); fd != nil && !isStub(fd) {
			buntPattern = len(findCallsSel(fd.Body, "AscendKeys")) > 0
			// limit is ignored iff the identifier never occurs in the body
			used := false
			ast.Inspect(fd.Body, func(n ast.Node) bool {
				if id, ok := n.(*ast.Ident); ok && id.Name == "limit" {
					used = true
				}
				return true
			})
			buntIgnoresLimit = !used
		}
	}

	if f, err := c.Parse("msgstorage/msgstorage.go"); err != nil {
		pb.add("msgstorage.go: %v", err)
	} else {
		// ticker period
		if fd := trlib.FuncDecl(f, "MsgStorage.periodicPersist"); fd != nil {
			found := false
			for _, cl := range findCalls(fd.Body, "time", "NewTicker") {
				if len(cl.Args) == 1 {
					if be, ok := cl.Args[0].(*ast.BinaryExpr); ok && be.Op == token.MUL {
						if n, ok := intLit(be.X); ok {
							if sel, ok := be.Y.(*ast.SelectorExpr); ok && sel.Sel.Name == "Millisecond" {
								tickMs, found = n, true
							}
						}
					}
				}
			}
			if !found {
				pb.add("periodicPersist: time.NewTicker(<n> * time.Millisecond) not found")
			}
		} else {
			pb.add("periodicPersist missing")
		}
		// statement-order facts of persist
		if fd := trlib.FuncDecl(f, "MsgStorage.persist"); fd != nil {
			c.RecordShapes("msgstorage/msgstorage.go", f, "MsgStorage.persist", "MsgStorage.periodicPersist", "MsgStorage.PurgeQueue")
			var posBatch, posConfirm, posLock, posUnlock, posClean token.Pos
			var order []string
			sawCancelLoop, sawRmLoop := false, false
			sawConfirmAdd, sawConfirmSettled, settledBeforeBatch, settledBuilt := false, false, false, false
			for _, st := range fd.Body.List {
				// top-level statement containing ProcessBatch
				if len(findCallsSel(st, "ProcessBatch")) > 0 && posBatch == 0 {
					posBatch = st.Pos()
				}
				if rs, ok := st.(*ast.RangeStmt); ok {
					// confirm loops: `for _, message := range <add|settled> { storage.confirm(message) }`
					if len(findCallsSel(rs.Body, "confirm")) > 0 && len(rs.Body.List) == 1 {
						switch trlib.ExprString(rs.X) {
						case "add":
							if posConfirm == 0 {
								posConfirm = st.Pos()
							}
							sawConfirmAdd = true
						case "settled":
							sawConfirmSettled = true
							if posBatch == 0 || st.Pos() < posBatch {
								settledBeforeBatch = true
							}
						default:
							pb.add("persist: a confirm loop ranges over %s", trlib.ExprString(rs.X))
						}
					}
					// batch-building loops: append(batch, ...) inside
					if strings.Contains(nodeString(rs.Body), "append(batch") || strings.Contains(nodeString(rs.Body), "append(\n\t\tbatch") {
						switch trlib.ExprString(rs.X) {
						case "add":
							order = append(order, "GAdd")
						case "update":
							order = append(order, "GUpdate")
						case "del":
							order = append(order, "GDel")
						default:
							pb.add("persist: batch loop over %s", trlib.ExprString(rs.X))
						}
					}
					// cancellation loop: ranges over del without building the batch; `delete(add, <key>)`, `delete(update, <key>)`
					if trlib.ExprString(rs.X) == "del" && !strings.Contains(nodeString(rs.Body), "batch") {
						src := nodeString(rs.Body)
						sawCancelLoop = true
						delCancelsAdd = reDelAdd.MatchString(src)
						delDropsUpdate = reDelUpdate.MatchString(src)
						settledBuilt = reSettled.MatchString(src)
					} else if !strings.Contains(nodeString(rs.Body), "batch") && reDelDel.MatchString(nodeString(rs.Body)) {
						// second pass: the cancelled keys are removed from del as well
						cancelledDelRemoved = true
						sawRmLoop = true
					}
				}
				if es, ok := st.(*ast.ExprStmt); ok {
					s := trlib.ExprString(es.X)
					switch s {
					case "storage.persistLock.Lock()":
						posLock = st.Pos()
					case "storage.persistLock.Unlock()":
						posUnlock = st.Pos()
					case "storage.cleanPersistQueue()":
						posClean = st.Pos()
					}
				}
			}
			if posBatch == 0 || posConfirm == 0 {
				pb.add("persist: ProcessBatch statement or confirm loop not found at top level")
			} else {
				confirmAfterBatch = posBatch < posConfirm
			}
			swapUnderLock = posLock != 0 && posUnlock != 0 && posClean != 0 && posLock < posClean && posClean < posUnlock && posUnlock < posBatch
			if len(order) == 3 {
				batchOrder = order
			} else {
				pb.add("persist: expected three batch-building loops, found %d", len(order))
			}
			if !sawRmLoop {
				cancelledDelRemoved = false
			}
			if !sawCancelLoop {
				delCancelsAdd, delDropsUpdate = false, false
				pb.add("persist: no loop over del that cancels adds and updates")
			}
			if !sawConfirmAdd {
				pb.add("persist: no `for _, message := range add { storage.confirm(message) }` loop")
			}
			settledConfirmed = sawConfirmSettled && settledBuilt && !settledBeforeBatch
			if sawConfirmSettled != settledBuilt {
				pb.add("persist: `settled` is built (%v) but confirmed (%v)", settledBuilt, sawConfirmSettled)
			}
			// the confirm method: guard, then Confirm() deciding the send
			if cf := trlib.FuncDecl(f, "MsgStorage.confirm"); cf != nil {
				c.RecordShapes("msgstorage/msgstorage.go", f, "MsgStorage.confirm")
				src := nodeString(cf.Body)
				confirmGuard = strings.Contains(src, "storage.confirmMode") && strings.Contains(src, "ConfirmMeta != nil") && strings.Contains(src, "DeliveryTag > 0")
				snd := strings.Index(src, "confirmSyncCh <-")
				cnt := strings.Index(src, "ConfirmMeta.Confirm()")
				if snd < 0 {
					pb.add("confirm: no send on confirmSyncCh")
				}
				confirmCounts = cnt >= 0 && cnt < snd && strings.Contains(src, "if message.ConfirmMeta.Confirm()")
				if cnt >= 0 && !confirmCounts {
					pb.add("confirm: Confirm() is called but does not guard the send")
				}
			} else {
				pb.add("MsgStorage.confirm missing")
			}
		} else {
			pb.add("persist missing")
		}
		// PurgeQueue: serialised with persist (flushLock), cancels the queue's pending adds by a delete of the same key,
		// drops its pending updates, then deletes the flushed keys by prefix
		if pq := trlib.FuncDecl(f, "MsgStorage.PurgeQueue"); pq != nil {
			src := nodeString(pq.Body)
			persistSrc := ""
			if fd := trlib.FuncDecl(f, "MsgStorage.persist"); fd != nil {
				persistSrc = nodeString(fd.Body)
			}
			purgeWaits = strings.Contains(src, "storage.flushLock.Lock()") && strings.Contains(src, "defer storage.flushLock.Unlock()") &&
				strings.Contains(persistSrc, "storage.flushLock.Lock()") && strings.Contains(persistSrc, "defer storage.flushLock.Unlock()")
			purgeCancelsAdds, purgeDropsUpdates = false, false
			var posPending, posDelete token.Pos
			for _, st := range pq.Body.List {
				if rs, ok := st.(*ast.RangeStmt); ok {
					body := nodeString(rs.Body)
					exact := rePurgeExact.MatchString(body)
					switch trlib.ExprString(rs.X) {
					case "storage.add":
						if exact && rePurgeSetDel.MatchString(body) {
							purgeCancelsAdds = true
						} else {
							pb.add("PurgeQueue: loop over storage.add is not `if key == makeKey(message.ID, queue) { storage.del[key] = message }`")
						}
					case "storage.update":
						if exact && rePurgeDelUpd.MatchString(body) {
							purgeDropsUpdates = true
						} else {
							pb.add("PurgeQueue: loop over storage.update is not `if key == makeKey(message.ID, queue) { delete(storage.update, key) }`")
						}
					default:
						pb.add("PurgeQueue: loop over %s", trlib.ExprString(rs.X))
					}
					if posPending == 0 {
						posPending = st.Pos()
					}
				}
				if len(findCallsSel(st, "DeleteByPrefix")) > 0 {
					posDelete = st.Pos()
				}
			}
			if posDelete == 0 {
				pb.add("PurgeQueue: no DeleteByPrefix at top level")
			}
			if posPending != 0 && posDelete != 0 && posPending > posDelete {
				pb.add("PurgeQueue: the pending maps are handled after the engine delete")
			}
		} else {
			pb.add("PurgeQueue missing")
		}
		// Close: one more persist before the engine is closed
		if cl := trlib.FuncDecl(f, "MsgStorage.Close"); cl != nil {
			src := nodeString(cl.Body)
			pi, ci := strings.Index(src, "storage.persist()"), strings.Index(src, "storage.db.Close()")
			closePersists = pi >= 0 && ci >= 0 && pi < ci
			if ci < 0 {
				pb.add("Close: no storage.db.Close()")
			}
		} else {
			pb.add("Close missing")
		}
	}

	var sb strings.Builder
	sb.WriteString("(* GENERATED by /verif/translator/cmd/stores from /repo/storage/storage_badger.go, storage_bunt.go,\n")
	sb.WriteString("   /repo/msgstorage/msgstorage.go (and badger's DefaultOptions in the module cache). Do not edit. *)\n")
	sb.WriteString("From Coq Require Import List NArith.\nFrom GMQ Require Import Store.KeyFmt.\nImport ListNotations.\n\n")
	sb.WriteString("(* NewBadger: explicit `opts.SyncWrites = b` (None: no assignment), the library default, and the effective value *)\n")
	fmt.Fprintf(&sb, "Definition badger_sync_writes_explicit : option bool := %s.\n", coqOptBool(syncExplicitKnown, syncExplicit))
	fmt.Fprintf(&sb, "Definition badger_sync_writes_default : option bool := %s.\n", coqOptBool(syncDefaultKnown, syncDefault))
	sb.WriteString("Definition badger_sync_writes : bool :=\n  match badger_sync_writes_explicit with Some b => b | None => match badger_sync_writes_default with Some b => b | None => false end end.\n")
	sb.WriteString("(* NewBuntDB: SetConfig{SyncPolicy: buntdb.Always} *)\n")
	fmt.Fprintf(&sb, "Definition bunt_sync_always : bool := %s.\n", trlib.CoqBool(buntAlways))
	sb.WriteString("(* msgstorage.periodicPersist ticker, milliseconds *)\n")
	fmt.Fprintf(&sb, "Definition persist_tick_ms : N := %d.\n", tickMs)
	sb.WriteString("(* wrapper methods whose body is empty / a bare `return 0` *)\n")
	for _, e := range []string{"Badger", "BuntDB"} {
		lower := map[string]string{"Badger": "badger", "BuntDB": "bunt"}[e]
		fmt.Fprintf(&sb, "Definition %s_stub_iterate_by_prefix : bool := %s.\n", lower, trlib.CoqBool(stubs[e+".IterateByPrefix"]))
		fmt.Fprintf(&sb, "Definition %s_stub_iterate_by_prefix_from : bool := %s.\n", lower, trlib.CoqBool(stubs[e+".IterateByPrefixFrom"]))
		fmt.Fprintf(&sb, "Definition %s_stub_delete_by_prefix : bool := %s.\n", lower, trlib.CoqBool(stubs[e+".DeleteByPrefix"]))
		fmt.Fprintf(&sb, "Definition %s_stub_keys_by_prefix_count : bool := %s.\n", lower, trlib.CoqBool(stubs[e+".KeysByPrefixCount"]))
	}
	fmt.Fprintf(&sb, "Definition bunt_iterate_by_prefix_is_pattern : bool := %s.\n", trlib.CoqBool(buntPattern))
	fmt.Fprintf(&sb, "Definition bunt_iterate_by_prefix_ignores_limit : bool := %s.\n", trlib.CoqBool(buntIgnoresLimit))
	sb.WriteString("(* statement-order facts of msgstorage.persist *)\n")
	fmt.Fprintf(&sb, "Definition persist_swap_under_lock : bool := %s.\n", trlib.CoqBool(swapUnderLock))
	fmt.Fprintf(&sb, "Definition persist_del_cancels_add : bool := %s.\n", trlib.CoqBool(delCancelsAdd))
	fmt.Fprintf(&sb, "Definition persist_del_drops_update : bool := %s.\n", trlib.CoqBool(delDropsUpdate))
	fmt.Fprintf(&sb, "Definition persist_cancelled_del_removed : bool := %s.\n", trlib.CoqBool(cancelledDelRemoved))
	fmt.Fprintf(&sb, "Definition persist_batch_order : list batch_group := [%s].\n", strings.Join(batchOrder, "; "))
	fmt.Fprintf(&sb, "Definition persist_confirm_after_batch : bool := %s.\n", trlib.CoqBool(confirmAfterBatch))
	fmt.Fprintf(&sb, "Definition persist_confirm_guarded : bool := %s.\n", trlib.CoqBool(confirmGuard))
	fmt.Fprintf(&sb, "(* adds cancelled by a del in the same window are remembered (`settled`) and confirmed after the batch *)\nDefinition persist_settled_confirmed : bool := %s.\n", trlib.CoqBool(settledConfirmed))
	fmt.Fprintf(&sb, "(* PurgeQueue: serialised with persist by flushLock; cancels the queue's pending adds (del of the same key); drops its pending updates *)\nDefinition purge_waits_for_persist : bool := %s.\nDefinition purge_cancels_pending_adds : bool := %s.\nDefinition purge_drops_pending_updates : bool := %s.\n(* Close runs persist once more before closing the engine *)\nDefinition close_persists : bool := %s.\n", trlib.CoqBool(purgeWaits), trlib.CoqBool(purgeCancelsAdds), trlib.CoqBool(purgeDropsUpdates), trlib.CoqBool(closePersists))
	fmt.Fprintf(&sb, "(* the relay is sent only when ConfirmMeta.Confirm() reports that this call completed the message *)\nDefinition persist_confirm_counts : bool := %s.\n", trlib.CoqBool(confirmCounts))

	if len(pb.list) > 0 {
		c.Unrec(optsRel, strings.Join(pb.list, "; "))
	} else {
		c.Ok(optsRel)
	}
	return c.Write(optsRel, sb.String())
}

// findCallsSel collects calls <anything>.fn(...)
func findCallsSel(node ast.Node, fn string) []*ast.CallExpr {
	var out []*ast.CallExpr
	ast.Inspect(node, func(n ast.Node) bool {
		if c, ok := n.(*ast.CallExpr); ok {
			if sel, ok := c.Fun.(*ast.SelectorExpr); ok && sel.Sel.Name == fn {
				out = append(out, c)
			}
		}
		return true
	})
	return out
}

func nodeString(n ast.Node) string {
	var sb strings.Builder
	_ = format.Node(&sb, token.NewFileSet(), n)
	return sb.String()
}
