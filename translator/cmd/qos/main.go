// Translator for /repo/qos/qos.go and the window loop of queue.PopQos.
//
// qos.go is straight-line integer code.  This program is a deliberately tiny
// Go -> Gallina translation of exactly the statement and expression shapes that
// file uses:
//
//	statements   recv.Lock() / defer recv.Unlock()      (dropped: every method is one atomic step)
//	             x := e                                 let x := e in
//	             recv.f = e  (also += and -=)           let q := set_f q e in
//	             if c { A } [else { B }]                (A,B assign only)  let q := if c then A else B in
//	             if c { A; return e }  rest             if c then A; return e else rest
//	             return e | return &AmqpQos{..}         (e, q) for a mutating method, e otherwise
//	expressions  recv.f, parameters, locals, integer literals, true/false, ( ), !,
//	             == != < <= > >=, && ||, + and - on uintN operands (wrap explicit: mod 2^N)
//
// Anything else makes the function "unrecognised": QosGen.v then defines it as
// the hand model's function (Data/Qos.v), so everything still compiles, and the
// status says which function and why.
//
// The second part reads queue.PopQos and extracts the shape of its window loop:
// does the refusal branch undo the charges already made (a call of Dec inside
// the `if !q.Inc(..)` branch)?  -> popqos_rolls_back.
package main

import (
	"fmt"
	"go/ast"
	"go/token"
	"sort"
	"strconv"
	"strings"

	"gmqverif/translator/trlib"
)

func main() { trlib.Main(map[string]trlib.Generator{"qos": genQos}) }

const rel = "Data/gen/QosGen.v"

var coqName = map[string]string{
	"NewAmqpQos": "qos_new", "AmqpQos.Update": "qos_update", "AmqpQos.IsActive": "qos_is_active",
	"AmqpQos.Inc": "qos_inc", "AmqpQos.Dec": "qos_dec", "AmqpQos.Release": "qos_release", "AmqpQos.Copy": "qos_copy",
}
var order = []string{"NewAmqpQos", "AmqpQos.Update", "AmqpQos.IsActive", "AmqpQos.Inc", "AmqpQos.Dec", "AmqpQos.Release", "AmqpQos.Copy"}

// the record of the hand model (Data/Qos.v), in constructor order
var recordFields = []string{"prefetchCount", "currentCount", "prefetchSize", "currentSize"}

func pow2(w int) string {
	switch w {
	case 8:
		return "256"
	case 16:
		return "65536"
	case 32:
		return "4294967296"
	case 64:
		return "18446744073709551616"
	}
	return "0"
}

func widthOf(t ast.Expr) int {
	id, ok := t.(*ast.Ident)
	if !ok {
		return 0
	}
	switch id.Name {
	case "uint8", "byte":
		return 8
	case "uint16":
		return 16
	case "uint32":
		return 32
	case "uint64":
		return 64
	}
	return 0
}

type fn struct {
	fields   map[string]int // struct field -> width
	recv     string         // receiver identifier ("" for a plain function)
	vars     map[string]int // params and locals -> width (0 = bool/unknown)
	rename   map[string]string
	mutating bool
	hasRes   bool
}

type unrec struct{ why string }

func fail(format string, a ...interface{}) { panic(unrec{fmt.Sprintf(format, a...)}) }

// expression -> (gallina, width) ; width 0 = bool, -1 = untyped integer literal
func (f *fn) expr(e ast.Expr) (string, int) {
	switch x := e.(type) {
	case *ast.ParenExpr:
		s, w := f.expr(x.X)
		return "(" + s + ")", w
	case *ast.BasicLit:
		if x.Kind != token.INT {
			fail("literal %s", x.Value)
		}
		if _, err := strconv.ParseUint(x.Value, 10, 64); err != nil {
			fail("literal %s", x.Value)
		}
		return x.Value, -1
	case *ast.Ident:
		if x.Name == "true" || x.Name == "false" {
			return x.Name, 0
		}
		w, ok := f.vars[x.Name]
		if !ok {
			fail("identifier %s", x.Name)
		}
		return f.rename[x.Name], w
	case *ast.SelectorExpr:
		id, ok := x.X.(*ast.Ident)
		if !ok || f.recv == "" || id.Name != f.recv {
			fail("selector %s", trlib.ExprString(e))
		}
		w, ok := f.fields[x.Sel.Name]
		if !ok {
			fail("field %s", x.Sel.Name)
		}
		return "(" + x.Sel.Name + " q)", w
	case *ast.UnaryExpr:
		if x.Op == token.NOT {
			s, w := f.expr(x.X)
			if w != 0 {
				fail("! on a non-boolean")
			}
			return "(negb " + s + ")", 0
		}
		if x.Op == token.AND {
			if cl, ok := x.X.(*ast.CompositeLit); ok {
				return f.composite(cl), 1000
			}
		}
		fail("unary %s", x.Op)
	case *ast.BinaryExpr:
		a, wa := f.expr(x.X)
		b, wb := f.expr(x.Y)
		switch x.Op {
		case token.LAND, token.LOR:
			if wa != 0 || wb != 0 {
				fail("%s on non-booleans", x.Op)
			}
			if x.Op == token.LAND {
				return "(" + a + " && " + b + ")", 0
			}
			return "(" + a + " || " + b + ")", 0
		}
		// integer operands: the widths must agree (a literal adopts the other side's)
		w := wa
		if w == -1 {
			w = wb
		}
		if wa == 0 || wb == 0 || wa == 1000 || wb == 1000 || (wa > 0 && wb > 0 && wa != wb) {
			fail("operand types of %s", trlib.ExprString(e))
		}
		switch x.Op {
		case token.EQL:
			return "(" + a + " =? " + b + ")", 0
		case token.NEQ:
			return "(negb (" + a + " =? " + b + "))", 0
		case token.LSS:
			return "(" + a + " <? " + b + ")", 0
		case token.LEQ:
			return "(" + a + " <=? " + b + ")", 0
		case token.GTR:
			return "(" + b + " <? " + a + ")", 0
		case token.GEQ:
			return "(" + b + " <=? " + a + ")", 0
		case token.ADD:
			if w <= 0 {
				fail("+ on untyped operands")
			}
			return "((" + a + " + " + b + ") mod " + pow2(w) + ")", w
		case token.SUB:
			if w <= 0 {
				fail("- on untyped operands")
			}
			return "((" + a + " + " + pow2(w) + " - " + b + ") mod " + pow2(w) + ")", w
		}
		fail("operator %s", x.Op)
	}
	fail("expression %s", trlib.ExprString(e))
	return "", 0
}

func (f *fn) composite(cl *ast.CompositeLit) string {
	id, ok := cl.Type.(*ast.Ident)
	if !ok || id.Name != "AmqpQos" {
		fail("composite literal of %s", trlib.ExprString(cl.Type))
	}
	vals := map[string]string{}
	for _, el := range cl.Elts {
		kv, ok := el.(*ast.KeyValueExpr)
		if !ok {
			fail("positional composite literal")
		}
		k, ok := kv.Key.(*ast.Ident)
		if !ok {
			fail("composite key")
		}
		w, ok := f.fields[k.Name]
		if !ok {
			fail("composite field %s", k.Name)
		}
		s, we := f.expr(kv.Value)
		if we != -1 && we != w {
			fail("composite field %s: width", k.Name)
		}
		vals[k.Name] = s
	}
	parts := []string{"mkQos"}
	for _, n := range recordFields {
		v, ok := vals[n]
		if !ok {
			v = "0"
		}
		parts = append(parts, v)
	}
	return "(" + strings.Join(parts, " ") + ")"
}

func hasReturn(stmts []ast.Stmt) bool {
	found := false
	for _, s := range stmts {
		ast.Inspect(s, func(n ast.Node) bool {
			if _, ok := n.(*ast.ReturnStmt); ok {
				found = true
			}
			return true
		})
	}
	return found
}

func terminates(stmts []ast.Stmt) bool {
	if len(stmts) == 0 {
		return false
	}
	_, ok := stmts[len(stmts)-1].(*ast.ReturnStmt)
	return ok
}

func isLockCall(f *fn, s ast.Stmt) bool {
	var call *ast.CallExpr
	switch x := s.(type) {
	case *ast.ExprStmt:
		call, _ = x.X.(*ast.CallExpr)
	case *ast.DeferStmt:
		call = x.Call
	}
	if call == nil || len(call.Args) != 0 {
		return false
	}
	sel, ok := call.Fun.(*ast.SelectorExpr)
	if !ok {
		return false
	}
	id, ok := sel.X.(*ast.Ident)
	return ok && id.Name == f.recv && (sel.Sel.Name == "Lock" || sel.Sel.Name == "Unlock")
}

// stmts -> gallina; fall is what a block that falls off its end evaluates to ("" = must not)
func (f *fn) stmts(list []ast.Stmt, fall string, ind string) string {
	if len(list) == 0 {
		if fall == "" {
			fail("control reaches the end of a function that returns a value")
		}
		return ind + fall
	}
	s, rest := list[0], list[1:]
	if isLockCall(f, s) {
		fail("the window's lock is taken or released inside the body (the model's one-step-per-call needs ONE critical section: Lock + defer Unlock at the top)")
	}
	switch x := s.(type) {
	case *ast.AssignStmt:
		if len(x.Lhs) != 1 || len(x.Rhs) != 1 {
			fail("multiple assignment")
		}
		switch x.Tok {
		case token.DEFINE:
			id, ok := x.Lhs[0].(*ast.Ident)
			if !ok {
				fail("definition target")
			}
			e, w := f.expr(x.Rhs[0])
			if w == -1 || w == 1000 {
				fail("local %s of unsupported type", id.Name)
			}
			f.vars[id.Name] = w
			f.rename[id.Name] = id.Name
			return ind + "let " + id.Name + " := " + e + " in\n" + f.stmts(rest, fall, ind)
		case token.ASSIGN:
			sel, ok := x.Lhs[0].(*ast.SelectorExpr)
			if !ok {
				fail("assignment target %s", trlib.ExprString(x.Lhs[0]))
			}
			id, ok := sel.X.(*ast.Ident)
			if !ok || id.Name != f.recv {
				fail("assignment target %s", trlib.ExprString(x.Lhs[0]))
			}
			w, ok := f.fields[sel.Sel.Name]
			if !ok {
				fail("assignment to field %s", sel.Sel.Name)
			}
			e, we := f.expr(x.Rhs[0])
			if we != -1 && we != w {
				fail("assignment to %s: width", sel.Sel.Name)
			}
			return ind + "let q := set_" + sel.Sel.Name + " q " + e + " in\n" + f.stmts(rest, fall, ind)
		}
		if x.Tok == token.ADD_ASSIGN || x.Tok == token.SUB_ASSIGN {
			// recv.f += e  is  recv.f = recv.f + e
			op := token.ADD
			if x.Tok == token.SUB_ASSIGN {
				op = token.SUB
			}
			return f.stmts(append([]ast.Stmt{&ast.AssignStmt{Lhs: x.Lhs, Tok: token.ASSIGN, Rhs: []ast.Expr{&ast.BinaryExpr{X: x.Lhs[0], Op: op, Y: x.Rhs[0]}}}}, rest...), fall, ind)
		}
		fail("assignment operator %s", x.Tok)
	case *ast.ReturnStmt:
		if len(rest) != 0 {
			fail("statements after return")
		}
		if len(x.Results) == 0 {
			if f.hasRes || fall == "" {
				fail("bare return")
			}
			return ind + fall
		}
		if len(x.Results) != 1 {
			fail("multiple results")
		}
		e, _ := f.expr(x.Results[0])
		if f.mutating {
			return ind + "(" + e + ", q)"
		}
		return ind + e
	case *ast.IfStmt:
		if x.Init != nil {
			fail("if with init statement")
		}
		c, w := f.expr(x.Cond)
		if w != 0 {
			fail("non-boolean condition")
		}
		var els []ast.Stmt
		if x.Else != nil {
			b, ok := x.Else.(*ast.BlockStmt)
			if !ok {
				fail("else-if chain")
			}
			els = b.List
		}
		thenRet, elseRet := hasReturn(x.Body.List), hasReturn(els)
		if !thenRet && !elseRet {
			if !f.mutating {
				fail("if without effect")
			}
			return ind + "let q := if " + c + "\n" + ind + "  then\n" + f.stmts(x.Body.List, "q", ind+"    ") + "\n" + ind + "  else\n" +
				f.stmts(els, "q", ind+"    ") + " in\n" + f.stmts(rest, fall, ind)
		}
		if thenRet && terminates(x.Body.List) && x.Else == nil {
			return ind + "if " + c + "\n" + ind + "then\n" + f.stmts(x.Body.List, "", ind+"  ") + "\n" + ind + "else\n" + f.stmts(rest, fall, ind+"  ")
		}
		if terminates(x.Body.List) && terminates(els) && len(rest) == 0 {
			return ind + "if " + c + "\n" + ind + "then\n" + f.stmts(x.Body.List, "", ind+"  ") + "\n" + ind + "else\n" + f.stmts(els, "", ind+"  ")
		}
		fail("if statement with a return in an unsupported position")
	}
	fail("statement %T", s)
	return ""
}

func translate(fd *ast.FuncDecl, name string, fields map[string]int) (def string, locked bool, err string) {
	defer func() {
		if r := recover(); r != nil {
			u, ok := r.(unrec)
			if !ok {
				panic(r)
			}
			err = u.why
		}
	}()
	f := &fn{fields: fields, vars: map[string]int{}, rename: map[string]string{}}
	if fd.Recv != nil && len(fd.Recv.List) == 1 && len(fd.Recv.List[0].Names) == 1 {
		f.recv = fd.Recv.List[0].Names[0].Name
	}
	params := ""
	if f.recv != "" {
		params = " (q : qos)"
	}
	for _, p := range fd.Type.Params.List {
		w := widthOf(p.Type)
		if w == 0 {
			fail("parameter of type %s", trlib.ExprString(p.Type))
		}
		for _, n := range p.Names {
			f.vars[n.Name] = w
			f.rename[n.Name] = "a_" + n.Name
			params += " (a_" + n.Name + " : N)"
		}
	}
	resT := ""
	if fd.Type.Results != nil && len(fd.Type.Results.List) == 1 {
		f.hasRes = true
		rt := trlib.ExprString(fd.Type.Results.List[0].Type)
		switch rt {
		case "bool":
			resT = "bool"
		case "*AmqpQos":
			resT = "qos"
		default:
			fail("result type %s", rt)
		}
	} else if fd.Type.Results != nil && len(fd.Type.Results.List) > 1 {
		fail("several results")
	}
	ast.Inspect(fd.Body, func(n ast.Node) bool {
		if as, ok := n.(*ast.AssignStmt); ok && as.Tok == token.ASSIGN {
			for _, l := range as.Lhs {
				if sel, ok := l.(*ast.SelectorExpr); ok {
					if id, ok := sel.X.(*ast.Ident); ok && id.Name == f.recv {
						f.mutating = true
					}
				}
			}
		}
		return true
	})
	typ, fall := "", ""
	switch {
	case f.mutating && f.hasRes:
		typ, fall = resT+" * qos", ""
	case f.mutating:
		typ, fall = "qos", "q"
	case f.hasRes:
		typ, fall = resT, ""
	default:
		fail("function without effect or result")
	}
	// the single critical section: recv.Lock(); defer recv.Unlock() as the first two statements, nothing else
	list := fd.Body.List
	if len(list) >= 2 && f.recv != "" {
		e, ok1 := list[0].(*ast.ExprStmt)
		d, ok2 := list[1].(*ast.DeferStmt)
		if ok1 && ok2 && isLockCall(f, list[0]) && isLockCall(f, list[1]) {
			c1 := e.X.(*ast.CallExpr).Fun.(*ast.SelectorExpr).Sel.Name
			c2 := d.Call.Fun.(*ast.SelectorExpr).Sel.Name
			if c1 == "Lock" && c2 == "Unlock" {
				locked = true
				list = list[2:]
			}
		}
	}
	body := f.stmts(list, fall, "  ")
	return "Definition " + name + params + " : " + typ + " :=\n" + body + ".\n", locked, ""
}

// ---- PopQos window loop ----------------------------------------------------

type loopShape struct {
	ok            bool
	why           string
	rollsBack     bool
	skipsInactive bool
	incArgs       string
	decArgs       string
}

func callOn(e ast.Expr, method string) (*ast.CallExpr, string) {
	c, ok := e.(*ast.CallExpr)
	if !ok {
		return nil, ""
	}
	sel, ok := c.Fun.(*ast.SelectorExpr)
	if !ok || sel.Sel.Name != method {
		return nil, ""
	}
	id, ok := sel.X.(*ast.Ident)
	if !ok {
		return nil, ""
	}
	return c, id.Name
}

func argString(c *ast.CallExpr) string {
	parts := []string{}
	for _, a := range c.Args {
		parts = append(parts, trlib.ExprString(a))
	}
	return strings.Join(parts, ", ")
}

func popQosShape(fd *ast.FuncDecl) loopShape {
	sh := loopShape{}
	if fd == nil || len(fd.Type.Params.List) != 1 || len(fd.Type.Params.List[0].Names) != 1 {
		sh.why = "PopQos not found or its parameter list changed"
		return sh
	}
	listName := fd.Type.Params.List[0].Names[0].Name
	var loops []*ast.RangeStmt
	ast.Inspect(fd.Body, func(n ast.Node) bool {
		if r, ok := n.(*ast.RangeStmt); ok {
			if id, ok := r.X.(*ast.Ident); ok && id.Name == listName {
				loops = append(loops, r)
			}
		}
		return true
	})
	if len(loops) != 1 {
		sh.why = fmt.Sprintf("%d loops over %s (expected one)", len(loops), listName)
		return sh
	}
	loop := loops[0]
	v, ok := loop.Value.(*ast.Ident)
	if !ok {
		sh.why = "loop variable"
		return sh
	}
	var incIf *ast.IfStmt
	for _, s := range loop.Body.List {
		is, ok := s.(*ast.IfStmt)
		if !ok || is.Init != nil || is.Else != nil {
			// the repaired loop may remember the charged window: charged = append(charged, q)
			if as, ok := s.(*ast.AssignStmt); ok && len(as.Rhs) == 1 {
				if c, ok := as.Rhs[0].(*ast.CallExpr); ok {
					if id, ok := c.Fun.(*ast.Ident); ok && id.Name == "append" && incIf != nil {
						continue
					}
				}
			}
			sh.why = "statement in the window loop: " + fmt.Sprintf("%T", s)
			return sh
		}
		neg, ok := is.Cond.(*ast.UnaryExpr)
		if !ok || neg.Op != token.NOT {
			sh.why = "condition in the window loop: " + trlib.ExprString(is.Cond)
			return sh
		}
		if c, on := callOn(neg.X, "IsActive"); c != nil && on == v.Name && incIf == nil {
			if len(is.Body.List) == 1 {
				if b, ok := is.Body.List[0].(*ast.BranchStmt); ok && b.Tok == token.CONTINUE {
					sh.skipsInactive = true
					continue
				}
			}
			sh.why = "inactive-window branch is not a bare continue"
			return sh
		}
		if c, on := callOn(neg.X, "Inc"); c != nil && on == v.Name && incIf == nil {
			incIf = is
			sh.incArgs = argString(c)
			continue
		}
		sh.why = "condition in the window loop: " + trlib.ExprString(is.Cond)
		return sh
	}
	if incIf == nil {
		sh.why = "no `if !q.Inc(..)` in the window loop"
		return sh
	}
	// refusal branch: allowed = false ; [undo] ; break
	last := incIf.Body.List[len(incIf.Body.List)-1]
	if b, ok := last.(*ast.BranchStmt); !ok || b.Tok != token.BREAK {
		sh.why = "refusal branch does not end in break"
		return sh
	}
	setsFalse := false
	decs := []string{}
	for _, s := range incIf.Body.List {
		if as, ok := s.(*ast.AssignStmt); ok && len(as.Rhs) == 1 {
			if id, ok := as.Rhs[0].(*ast.Ident); ok && id.Name == "false" {
				setsFalse = true
			}
		}
		ast.Inspect(s, func(n ast.Node) bool {
			if c, ok := n.(*ast.CallExpr); ok {
				if sel, ok := c.Fun.(*ast.SelectorExpr); ok && sel.Sel.Name == "Dec" {
					decs = append(decs, argString(c))
				}
			}
			return true
		})
	}
	if !setsFalse {
		sh.why = "refusal branch does not clear the allowed flag"
		return sh
	}
	switch len(decs) {
	case 0:
		sh.rollsBack = false
	case 1:
		sh.rollsBack = true
		sh.decArgs = decs[0]
		if sh.decArgs != sh.incArgs {
			sh.why = "rollback releases (" + sh.decArgs + ") but the charge was (" + sh.incArgs + ")"
			return sh
		}
	default:
		sh.why = "several Dec calls in the refusal branch"
		return sh
	}
	if sh.incArgs != "1, uint32(message.BodySize)" {
		sh.why = "charge is Inc(" + sh.incArgs + "), expected Inc(1, uint32(message.BodySize))"
		return sh
	}
	sh.ok = true
	return sh
}

// ---- driver ----------------------------------------------------------------

func genQos(c *trlib.Ctx) error {
	var sb strings.Builder
	problems := []string{}
	sb.WriteString("(* GENERATED by /verif/translator/cmd/qos from /repo/qos/qos.go and the window loop of\n" +
		"   queue.PopQos in /repo/queue/queue.go.  Do not edit.  The record [qos] and the field\n" +
		"   assignments [set_f] are those of Data/Qos.v; uintN wrap is explicit (mod 2^N). *)\n" +
		"From Coq Require Import List NArith Bool String.\nImport ListNotations.\nFrom GMQ Require Import Data.Qos.\nOpen Scope N_scope.\n\n")

	fields := map[string]int{}
	f, err := c.Parse("qos/qos.go")
	if err != nil {
		problems = append(problems, "qos.go: "+err.Error())
	} else {
		// struct AmqpQos: the integer fields and their widths
		names := []string{}
		ast.Inspect(f, func(n ast.Node) bool {
			ts, ok := n.(*ast.TypeSpec)
			if !ok || ts.Name.Name != "AmqpQos" {
				return true
			}
			st, ok := ts.Type.(*ast.StructType)
			if !ok {
				return false
			}
			for _, fl := range st.Fields.List {
				w := widthOf(fl.Type)
				for _, n := range fl.Names {
					if w != 0 {
						fields[n.Name] = w
						names = append(names, n.Name)
					} else {
						problems = append(problems, "struct field "+n.Name+" of type "+trlib.ExprString(fl.Type))
					}
				}
			}
			return false
		})
		sort.Strings(names)
		want := append([]string{}, recordFields...)
		sort.Strings(want)
		if strings.Join(names, ",") != strings.Join(want, ",") {
			problems = append(problems, "AmqpQos integer fields are {"+strings.Join(names, ",")+"}, the model's record has {"+strings.Join(want, ",")+"}")
			fields = map[string]int{}
		}
		c.RecordShapes("qos/qos.go", f, order...)
	}
	sb.WriteString("(* struct AmqpQos: integer fields and their bit widths, as declared *)\n")
	sb.WriteString("Definition qos_struct_gen : list (string * N) := [")
	for i, n := range recordFields {
		if i > 0 {
			sb.WriteString("; ")
		}
		sb.WriteString(fmt.Sprintf("(%s%%string, %d)", trlib.CoqString(n), fields[n]))
	}
	sb.WriteString("].\n\n")

	lockFacts := map[string]bool{}
	for _, gname := range order {
		cname := coqName[gname]
		var fd *ast.FuncDecl
		if f != nil {
			fd = trlib.FuncDecl(f, gname)
		}
		why := ""
		def := ""
		switch {
		case fd == nil:
			why = "not found"
		case len(fields) == 0:
			why = "struct not recognised"
		default:
			var locked bool
			def, locked, why = translate(fd, cname, fields)
			lockFacts[cname] = locked
		}
		if why != "" {
			problems = append(problems, gname+": "+why)
			sb.WriteString("(* " + gname + ": NOT TRANSLATED (" + strings.ReplaceAll(why, "*)", "* )") + "); fallback = the hand model *)\n")
			sb.WriteString("Definition " + cname + " := Qos." + cname + ".\n\n")
			continue
		}
		sb.WriteString("(* " + gname + " *)\n" + def + "\n")
	}

	// lock discipline: which methods run their whole body under one acquisition of the window's mutex
	sb.WriteString("(* does the method run its whole body under ONE acquisition of the window's lock (Lock(); defer Unlock() first)?\n" +
		"   Inc, Dec, Release, Copy must (the model makes each call one atomic step); Update and IsActive are reported as found. *)\n")
	for _, gname := range order[1:] {
		cname := coqName[gname]
		sb.WriteString("Definition " + cname + "_locked : bool := " + trlib.CoqBool(lockFacts[cname]) + ".\n")
	}
	for _, cname := range []string{"qos_inc", "qos_dec", "qos_release", "qos_copy"} {
		if _, translated := lockFacts[cname]; translated && !lockFacts[cname] {
			problems = append(problems, cname+": the body does not run under one Lock(); defer Unlock() critical section")
		}
	}
	sb.WriteString("\n")

	// PopQos
	qf, err := c.Parse("queue/queue.go")
	sh := loopShape{why: "queue.go does not parse"}
	if err == nil {
		fd := trlib.FuncDecl(qf, "Queue.PopQos")
		sh = popQosShape(fd)
		c.RecordShapes("queue/queue.go", qf, "Queue.PopQos")
	}
	sb.WriteString("(* queue.PopQos, the loop over the window list *)\n")
	if !sh.ok {
		problems = append(problems, "PopQos: "+sh.why)
		sb.WriteString("(* loop shape NOT RECOGNISED (" + strings.ReplaceAll(sh.why, "*)", "* )") + "); fallback = the repaired behaviour *)\n")
		sb.WriteString("Definition popqos_rolls_back : bool := true.\nDefinition popqos_skips_inactive : bool := false.\n")
	} else {
		sb.WriteString("(* " + map[bool]string{true: "windows without limits skipped (if !q.IsActive() { continue })", false: "every window charged"}[sh.skipsInactive] +
			"; charge Inc(" + sh.incArgs + "); refusal branch: allowed = false; " +
			map[bool]string{true: "Dec(" + sh.decArgs + ") on the windows already charged; ", false: ""}[sh.rollsBack] + "break *)\n")
		sb.WriteString("Definition popqos_rolls_back : bool := " + trlib.CoqBool(sh.rollsBack) + ".\n")
		sb.WriteString("Definition popqos_skips_inactive : bool := " + trlib.CoqBool(sh.skipsInactive) + ".\n")
	}
	if len(problems) > 0 {
		c.Unrec(rel, strings.Join(problems, "; "))
	} else {
		c.Ok(rel)
	}
	return c.Write(rel, sb.String())
}
