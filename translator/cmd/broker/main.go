// Translator for the broker-level model (coq/Broker/Model.v is written by hand; see DESIGN.md).
//
// The model treats certain source-level disciplines as given: a frame sequence is written under the channel's
// send lock, a settle releases the windows before it wakes, the confirm ticker takes a fresh slice, a count of
// confirmations is one critical section, and so on.  Those are exactly the facts a hand model cannot see change.
// This program reads them off /repo's current source (go/ast) and emits coq/Broker/gen/BrokerGen.v, one boolean per
// fact; Props/*.v state `fact = true` as an obligation (closed by reflexivity), so that a source change that drops a
// discipline breaks a proof obligation of the properties that rest on it.  A function that is missing or whose
// shape the reader does not understand makes the fact `false` with the reason in the status.
package main

import (
	"fmt"
	"go/ast"
	"go/token"
	"sort"
	"strings"

	"gmqverif/translator/trlib"
)

func main() { trlib.Main(map[string]trlib.Generator{"broker": gen}) }

const rel = "Broker/gen/BrokerGen.v"

type fact struct {
	name, doc string
	val       bool
	why       string
}

// callName renders the callee of a call expression ("channel.sendLock.Lock", "cmr.Consume", ...)
func callName(e ast.Expr) string {
	if c, ok := e.(*ast.CallExpr); ok {
		return trlib.ExprString(c.Fun)
	}
	return ""
}

// callsInOrder lists the callee names of every call in the function body, in source order
func callsInOrder(fd *ast.FuncDecl) []string {
	var out []string
	if fd == nil || fd.Body == nil {
		return out
	}
	ast.Inspect(fd.Body, func(n ast.Node) bool {
		if c, ok := n.(*ast.CallExpr); ok {
			out = append(out, trlib.ExprString(c.Fun))
		}
		return true
	})
	return out
}

func suffixIndex(calls []string, suffix string) int {
	for i, c := range calls {
		if strings.HasSuffix(c, suffix) {
			return i
		}
	}
	return -1
}
func lastSuffixIndex(calls []string, suffix string) int {
	r := -1
	for i, c := range calls {
		if strings.HasSuffix(c, suffix) {
			r = i
		}
	}
	return r
}

// startsLocked: the body begins with X.<lock>.Lock() ; defer X.<lock>.Unlock()  (possibly after guard statements
// that only return) - and contains no other Lock/Unlock of that lock
func startsLocked(fd *ast.FuncDecl, lock string) (bool, string) {
	if fd == nil || fd.Body == nil {
		return false, "function missing"
	}
	calls := callsInOrder(fd)
	nLock, nUnlock := 0, 0
	for _, c := range calls {
		if strings.HasSuffix(c, lock+".Lock") || strings.HasSuffix(c, lock+".RLock") {
			nLock++
		}
		if strings.HasSuffix(c, lock+".Unlock") || strings.HasSuffix(c, lock+".RUnlock") {
			nUnlock++
		}
	}
	if nLock != 1 || nUnlock != 1 {
		return false, fmt.Sprintf("%d Lock / %d Unlock calls of %s", nLock, nUnlock, lock)
	}
	// the Unlock must be deferred
	deferred := false
	ast.Inspect(fd.Body, func(n ast.Node) bool {
		if d, ok := n.(*ast.DeferStmt); ok {
			if strings.HasSuffix(trlib.ExprString(d.Call.Fun), lock+".Unlock") || strings.HasSuffix(trlib.ExprString(d.Call.Fun), lock+".RUnlock") {
				deferred = true
			}
		}
		return true
	})
	if !deferred {
		return false, "Unlock of " + lock + " is not deferred"
	}
	return true, ""
}

// sendDiscipline: every call of <x>.sendMethod / <x>.sendOutgoing in the file happens while <x>.sendLock is held in the
// same function (Lock earlier in an enclosing statement list, no Unlock in between), except inside sendMethod itself.
func sendDiscipline(f *ast.File) (bool, string) {
	ok, why := true, ""
	for _, d := range f.Decls {
		fd, isF := d.(*ast.FuncDecl)
		if !isF || fd.Body == nil {
			continue
		}
		if fd.Name.Name == "sendMethod" || fd.Name.Name == "sendOutgoing" {
			continue
		}
		var walk func(list []ast.Stmt, held bool)
		check := func(n ast.Node, held bool) {
			ast.Inspect(n, func(m ast.Node) bool {
				switch x := m.(type) {
				case *ast.BlockStmt, *ast.FuncLit:
					_ = x
					return false // nested statement lists are walked with their own lock state
				case *ast.CallExpr:
					nm := trlib.ExprString(x.Fun)
					if (strings.HasSuffix(nm, ".sendMethod") || strings.HasSuffix(nm, ".sendOutgoing")) && !held {
						ok = false
						why = fmt.Sprintf("%s calls %s without holding sendLock", fd.Name.Name, nm)
					}
				}
				return true
			})
		}
		walk = func(list []ast.Stmt, held bool) {
			for _, s := range list {
				if es, isE := s.(*ast.ExprStmt); isE {
					nm := callName(es.X)
					if strings.HasSuffix(nm, "sendLock.Lock") {
						held = true
						continue
					}
					if strings.HasSuffix(nm, "sendLock.Unlock") {
						held = false
						continue
					}
				}
				check(s, held)
				// nested lists
				ast.Inspect(s, func(m ast.Node) bool {
					switch x := m.(type) {
					case *ast.FuncLit:
						walk(x.Body.List, false)
						return false
					case *ast.BlockStmt:
						walk(x.List, held)
						return false
					case *ast.CaseClause:
						walk(x.Body, held)
						return false
					case *ast.CommClause:
						walk(x.Body, held)
						return false
					}
					return true
				})
			}
		}
		walk(fd.Body.List, false)
	}
	return ok, why
}

// reframeShape reads the body-frame loop of SendContent: the payload limit (frame-max minus an overhead, used only above
// a guard), the cutting loop (while the rest is longer than the limit: send the first limit bytes, keep the rest; then
// send the rest) and whether the stored (shared) frame objects are left untouched.
func reframeShape(fd *ast.FuncDecl) (recut, copies bool, overhead, guard string, why string) {
	overhead, guard = "0", "0"
	if fd == nil || fd.Body == nil {
		return false, false, overhead, guard, "SendContent not found"
	}
	copies = true
	var limitOk, loopOk, tailOk bool
	ast.Inspect(fd.Body, func(n ast.Node) bool {
		switch x := n.(type) {
		case *ast.AssignStmt:
			for _, l := range x.Lhs {
				if sel, ok := l.(*ast.SelectorExpr); ok && (sel.Sel.Name == "ChannelID" || sel.Sel.Name == "Payload") {
					copies = false
				}
			}
		case *ast.IfStmt:
			// if channel.conn.maxFrameSize > G { maxPayload = int(channel.conn.maxFrameSize) - O }
			if b, ok := x.Cond.(*ast.BinaryExpr); ok && b.Op == token.GTR && trlib.ExprString(b.X) == "channel.conn.maxFrameSize" && x.Else == nil && len(x.Body.List) == 1 {
				if as, ok := x.Body.List[0].(*ast.AssignStmt); ok && len(as.Lhs) == 1 && len(as.Rhs) == 1 && trlib.ExprString(as.Lhs[0]) == "maxPayload" {
					if r, ok := as.Rhs[0].(*ast.BinaryExpr); ok && r.Op == token.SUB && trlib.ExprString(r.X) == "int(channel.conn.maxFrameSize)" {
						if g, ok := b.Y.(*ast.BasicLit); ok && g.Kind == token.INT {
							if o, ok := r.Y.(*ast.BasicLit); ok && o.Kind == token.INT {
								guard, overhead, limitOk = g.Value, o.Value, true
							}
						}
					}
				}
			}
		case *ast.RangeStmt:
			if trlib.ExprString(x.X) != "message.Body" {
				return true
			}
			for i, st := range x.Body.List {
				f, ok := st.(*ast.ForStmt)
				if !ok || f.Init != nil || f.Post != nil || f.Cond == nil {
					continue
				}
				if trlib.ExprString(f.Cond) != "maxPayload > 0 && len(body) > maxPayload" || len(f.Body.List) != 2 {
					continue
				}
				first, ok1 := f.Body.List[0].(*ast.ExprStmt)
				second, ok2 := f.Body.List[1].(*ast.AssignStmt)
				if ok1 && ok2 && strings.HasPrefix(callName(first.X), "channel.sendOutgoing") && strings.Contains(trlib.ExprString(first.X), "Payload: body[:maxPayload]") &&
					strings.Contains(trlib.ExprString(first.X), "ChannelID: channel.id") &&
					len(second.Lhs) == 1 && trlib.ExprString(second.Lhs[0]) == "body" && trlib.ExprString(second.Rhs[0]) == "body[maxPayload:]" {
					loopOk = true
				}
				if i+1 == len(x.Body.List)-1 {
					if last, ok := x.Body.List[i+1].(*ast.ExprStmt); ok && strings.HasPrefix(callName(last.X), "channel.sendOutgoing") &&
						strings.Contains(trlib.ExprString(last.X), "Payload: body}") && strings.Contains(trlib.ExprString(last.X), "ChannelID: channel.id") {
						tailOk = true
					}
				}
			}
		}
		return true
	})
	recut = limitOk && loopOk && tailOk
	if !recut {
		why = fmt.Sprintf("SendContent: body-frame loop not in the recognised re-cutting shape (limit %v, loop %v, tail %v); ", limitOk, loopOk, tailOk)
	}
	if !copies {
		why += "SendContent assigns to a field of a stored frame; "
	}
	return
}

func mustParse(c *trlib.Ctx, rel string) *ast.File {
	f, err := c.Parse(rel)
	if err != nil {
		return &ast.File{}
	}
	return f
}

func gen(c *trlib.Ctx) error {
	var facts []fact
	add := func(name, doc string, val bool, why string) { facts = append(facts, fact{name, doc, val, why}) }

	ch, err := c.Parse("server/channel.go")
	if err != nil {
		return err
	}
	// 1. frames of a channel are written under its send lock
	ok, why := sendDiscipline(ch)
	add("send_under_channel_lock", "server/channel.go: every sendMethod / sendOutgoing call happens while the channel's sendLock is held (C13)", ok, why)
	okS, whyS := startsLocked(trlib.FuncDecl(ch, "Channel.SendMethod"), "sendLock")
	okC, whyC := startsLocked(trlib.FuncDecl(ch, "Channel.SendContent"), "sendLock")
	add("send_method_and_content_locked", "SendMethod and SendContent are each one critical section of sendLock (C13)", okS && okC, whyS+whyC)

	// 1b. body frames are re-cut to the receiver's frame-max and sent as copies (F79)
	recut, copies, reOver, reGuard, whyR := reframeShape(trlib.FuncDecl(ch, "Channel.SendContent"))
	add("body_frames_recut", "SendContent cuts every stored body frame to the payload limit of the receiving connection: while the rest is longer than the limit it sends the first limit bytes, then the rest (C13)", recut, whyR)
	add("body_frames_sent_as_copies", "SendContent sends fresh frames under the sending channel's id and never writes to the stored frames that all copies of a message share (C13)", copies, whyR)

	// 2. settle: the windows are released before anybody is woken
	dq := trlib.FuncDecl(ch, "Channel.decQosAndConsumeNext")
	calls := callsInOrder(dq)
	lastDec, wake := lastSuffixIndex(calls, ".Dec"), suffixIndex(calls, "wakeConsumers")
	add("settle_releases_before_wake", "decQosAndConsumeNext: every Dec precedes wakeConsumers (C07)", dq != nil && lastDec >= 0 && wake > lastDec,
		fmt.Sprintf("last Dec at call %d, wakeConsumers at call %d", lastDec, wake))

	// 3. flow on: un-pause, then signal
	cf := trlib.FuncDecl(ch, "Channel.changeFlow")
	calls = callsInOrder(cf)
	up, co := suffixIndex(calls, ".UnPause"), suffixIndex(calls, ".Consume")
	add("flow_unpauses_before_signal", "changeFlow: UnPause precedes Consume (C07)", cf != nil && up >= 0 && co > up, fmt.Sprintf("UnPause at %d, Consume at %d", up, co))

	// 4. the confirm ticker takes the queue and leaves a FRESH slice behind, under the confirm lock
	sc := trlib.FuncDecl(ch, "Channel.sendConfirms")
	fresh := false
	if sc != nil {
		ast.Inspect(sc.Body, func(n ast.Node) bool {
			if as, isA := n.(*ast.AssignStmt); isA && len(as.Lhs) == 1 && len(as.Rhs) == 1 {
				// any right-hand side that does not alias the old backing array (make, nil, a literal) is a fresh slice
				if strings.HasSuffix(trlib.ExprString(as.Lhs[0]), "confirmQueue") && !strings.Contains(trlib.ExprString(as.Rhs[0]), "confirmQueue") &&
					!strings.Contains(trlib.ExprString(as.Rhs[0]), "currentConfirms") {
					fresh = true
				}
			}
			return true
		})
	}
	add("confirm_ticker_takes_fresh_slice", "sendConfirms: after taking the queued confirms the queue is re-made, not re-sliced (C05)", fresh, "no `confirmQueue = make(...)` in sendConfirms")
	okA, whyA := startsLocked(trlib.FuncDecl(ch, "Channel.addConfirm"), "confirmLock")
	add("add_confirm_locked", "addConfirm appends under confirmLock (C05)", okA, whyA)

	// 5. one confirmation count is one critical section
	ty, err := c.Parse("amqp/types.go")
	if err != nil {
		return err
	}
	okM, whyM := startsLocked(trlib.FuncDecl(ty, "ConfirmMeta.Confirm"), "lock")
	add("confirm_count_is_critical_section", "ConfirmMeta.Confirm counts and tests under its lock (C05)", okM, whyM)

	// 6. wake-ups of the queue
	qf, err := c.Parse("queue/queue.go")
	if err != nil {
		return err
	}
	has := func(fn, callee string) (bool, string) {
		fd := trlib.FuncDecl(qf, fn)
		if fd == nil {
			return false, fn + " missing"
		}
		if suffixIndex(callsInOrder(fd), callee) < 0 {
			return false, fn + " does not call " + callee
		}
		return true, ""
	}
	okP, w1 := has("Queue.Push", "callConsumers")
	okR, w2 := has("Queue.Requeue", "callConsumers")
	okQ, w3 := has("Queue.PopQos", "callConsumers")
	okN, w4 := has("Queue.AddConsumer", "callConsumers")
	add("queue_calls_consumers", "Push, Requeue, PopQos (new head) and AddConsumer raise the queue's call token (C07)", okP && okR && okQ && okN, w1+w2+w3+w4)
	okPL, wPL := startsLocked(trlib.FuncDecl(qf, "Queue.Push"), "actLock")
	add("push_is_critical_section", "Queue.Push runs under actLock (C01 C05 C19)", okPL, wPL)

	// 7. the consumer re-arms itself after a delivery
	cf2, err := c.Parse("consumer/consumer.go")
	if err != nil {
		return err
	}
	rs := trlib.FuncDecl(cf2, "Consumer.retrieveAndSendMessage")
	okRe := rs != nil && suffixIndex(callsInOrder(rs), "consumeMsg") >= 0
	add("consumer_rearms_after_delivery", "retrieveAndSendMessage calls consumeMsg after a delivery (C07)", okRe, "no consumeMsg call")

	// 8. the metadata of a durable entity is written before the handler replies: no goroutine in the write path
	vh, err := c.Parse("server/vhost.go")
	if err != nil {
		return err
	}
	syncWrite := func(fn, callee string) (bool, string) {
		fd := trlib.FuncDecl(vh, fn)
		if fd == nil {
			return false, fn + " missing"
		}
		async := false
		ast.Inspect(fd.Body, func(n ast.Node) bool {
			if _, isGo := n.(*ast.GoStmt); isGo {
				async = true
			}
			return true
		})
		if async {
			return false, fn + " starts a goroutine"
		}
		if suffixIndex(callsInOrder(fd), callee) < 0 {
			return false, fn + " does not call " + callee
		}
		return true, ""
	}
	okQw, wq := syncWrite("VirtualHost.AppendQueue", "srvStorage.AddQueue")
	okXw, wx := syncWrite("VirtualHost.AppendExchange", "srvStorage.AddExchange")
	okBw, wb := syncWrite("VirtualHost.PersistBinding", "srvStorage.AddBinding")
	// DeleteQueue is a wrapper of deleteQueue (which the auto-delete turn calls too): both run in the caller's goroutine
	okDw, wd := syncWrite("VirtualHost.deleteQueue", "srvStorage.DelQueue")
	if okDw {
		okDw, wd = syncWrite("VirtualHost.DeleteQueue", "deleteQueue")
	}
	add("metadata_written_before_reply", "AppendQueue / AppendExchange / PersistBinding / DeleteQueue write the store synchronously (C09)", okQw && okXw && okBw && okDw, wq+wx+wb+wd)

	// 9. the queue length is only ever changed atomically
	atomicOnly, whyLen := true, ""
	for _, d := range qf.Decls {
		fd, isF := d.(*ast.FuncDecl)
		if !isF || fd.Body == nil || fd.Name.Name == "LoadFromMsgStorage" || fd.Name.Name == "NewQueue" {
			continue
		}
		ast.Inspect(fd.Body, func(n ast.Node) bool {
			switch x := n.(type) {
			case *ast.IncDecStmt:
				if strings.HasSuffix(trlib.ExprString(x.X), "queueLength") {
					atomicOnly, whyLen = false, fd.Name.Name+" changes queueLength with ++/--"
				}
			case *ast.AssignStmt:
				for _, l := range x.Lhs {
					if strings.HasSuffix(trlib.ExprString(l), "queueLength") {
						atomicOnly, whyLen = false, fd.Name.Name+" assigns queueLength directly"
					}
				}
			}
			return true
		})
	}
	add("queue_length_atomic", "queue.go: queueLength is changed through sync/atomic only (C20)", atomicOnly, whyLen)

	// 10. a negotiated heartbeat always arms the dead-peer timeout
	cm, err := c.Parse("server/connectionMethods.go")
	if err != nil {
		return err
	}
	armed, whyHb := false, "no `if method.Heartbeat > 0` block assigning heartbeatTimeout at its top level in connectionTuneOk"
	if to := trlib.FuncDecl(cm, "Channel.connectionTuneOk"); to != nil {
		ast.Inspect(to.Body, func(n ast.Node) bool {
			ifs, isIf := n.(*ast.IfStmt)
			if !isIf || !strings.Contains(trlib.ExprString(ifs.Cond), "Heartbeat > 0") {
				return true
			}
			for _, st := range ifs.Body.List {
				if as, isA := st.(*ast.AssignStmt); isA && len(as.Lhs) == 1 && strings.HasSuffix(trlib.ExprString(as.Lhs[0]), "heartbeatTimeout") {
					armed = true
				}
			}
			return true
		})
	}
	add("heartbeat_always_arms_timeout", "connectionTuneOk: whenever a heartbeat is negotiated the read timeout is set (C14: dead peers are detected)", armed, whyHb)
	hi := trlib.FuncDecl(mustParse(c, "server/connection.go"), "Connection.handleIncoming")
	deadline := hi != nil && suffixIndex(callsInOrder(hi), "SetReadDeadline") >= 0
	add("reader_sets_read_deadline", "handleIncoming renews the read deadline from heartbeatTimeout (C14)", deadline, "no SetReadDeadline call in handleIncoming")

	// 11. closing a channel stops its consumers before it returns their unsettled deliveries: a consumer that is
	// still running when its deliveries go back to the queue takes them again onto the channel that is being closed
	cl := trlib.FuncDecl(ch, "Channel.close")
	calls = callsInOrder(cl)
	lastStop, requeue := lastSuffixIndex(calls, ".Stop"), suffixIndex(calls, "handleReject")
	add("close_stops_consumers_before_requeue", "Channel.close: every consumer is stopped before handleReject returns the unsettled deliveries (C14 C01)",
		cl != nil && lastStop >= 0 && requeue > lastStop, fmt.Sprintf("last Stop at call %d, handleReject at call %d", lastStop, requeue))

	// 12. the auto-delete turn deletes a queue only if it is (still) an auto-delete queue without consumers
	ad := trlib.FuncDecl(vh, "VirtualHost.handleAutoDeleteQueue")
	guarded := false
	if ad != nil {
		ast.Inspect(ad.Body, func(n ast.Node) bool {
			if ce, isC := n.(*ast.CallExpr); isC && strings.HasSuffix(trlib.ExprString(ce.Fun), "deleteQueue") && len(ce.Args) == 4 {
				guarded = trlib.ExprString(ce.Args[1]) == "true" && trlib.ExprString(ce.Args[3]) == "true"
			}
			return true
		})
	}
	dq2 := trlib.FuncDecl(vh, "VirtualHost.deleteQueue")
	checks := false
	if dq2 != nil {
		ast.Inspect(dq2.Body, func(n ast.Node) bool {
			if ifs, isIf := n.(*ast.IfStmt); isIf && strings.Contains(trlib.ExprString(ifs.Cond), "onlyAutoDelete") && strings.Contains(trlib.ExprString(ifs.Cond), "IsAutoDelete") {
				checks = true
			}
			return true
		})
	}
	add("autodelete_turn_checks_the_queue", "handleAutoDeleteQueue deletes through deleteQueue(name, ifUnused=true, _, onlyAutoDelete=true), which tests IsAutoDelete under the queue table lock (C14 C01 C17)",
		guarded && checks, fmt.Sprintf("call guarded: %v, deleteQueue tests the flag: %v", guarded, checks))

	// 13. recording an unsettled delivery takes no lock of the queue table: it runs under the consumer's status lock, and a
	// queue.delete cancels consumers (status lock) while it holds the table lock
	au := trlib.FuncDecl(ch, "Channel.AddUnackedMessage")
	noLookup := au != nil
	for _, cn := range callsInOrder(au) {
		if strings.HasSuffix(cn, "GetQueue") || strings.HasSuffix(cn, "GetVirtualHost") || strings.HasSuffix(cn, "getQueue") {
			noLookup = false
		}
	}
	add("delivery_takes_no_table_lock", "Channel.AddUnackedMessage does not look the queue up (no queue table lock under the consumer's status lock) (C14 C11)",
		noLookup, "AddUnackedMessage calls GetQueue / GetVirtualHost")

	// emit
	sort.SliceStable(facts, func(i, j int) bool { return false })
	var sb strings.Builder
	sb.WriteString("(* GENERATED by translator/cmd/broker from /repo - do not edit.\n   Source-level disciplines the broker model takes as given, read off the current source. *)\n")
	sb.WriteString("From Coq Require Import Bool.\n\n")
	allOk := true
	var bad []string
	for _, f := range facts {
		sb.WriteString(fmt.Sprintf("(* %s *)\nDefinition %s : bool := %s.\n\n", f.doc, f.name, trlib.CoqBool(f.val)))
		if !f.val {
			allOk = false
			bad = append(bad, f.name+": "+f.why)
		}
	}
	sb.WriteString("From Coq Require Import NArith.\n\n")
	sb.WriteString(fmt.Sprintf("(* SendContent: payload limit = frame-max - reframe_overhead, applied when frame-max > reframe_guard (else: no cutting) *)\nDefinition reframe_overhead : N := %s%%N.\nDefinition reframe_guard : N := %s%%N.\n\n", reOver, reGuard))
	if err := c.Write(rel, sb.String()); err != nil {
		return err
	}
	if allOk {
		c.Ok(rel)
	} else {
		c.Unrec(rel, strings.Join(bad, "; "))
	}
	c.RecordShapes("server/channel.go", ch, "Channel.SendMethod", "Channel.SendContent", "Channel.sendError", "Channel.decQosAndConsumeNext",
		"Channel.changeFlow", "Channel.sendConfirms", "Channel.addConfirm", "Channel.checkMethodAllowed", "Channel.publishCurrentMessage", "Channel.close")
	c.RecordShapes("queue/queue.go", qf, "Queue.Push", "Queue.PopQos", "Queue.Requeue", "Queue.AddConsumer", "Queue.Purge", "Queue.Delete")
	c.RecordShapes("amqp/types.go", ty, "ConfirmMeta.Confirm")
	c.RecordShapes("server/vhost.go", vh, "VirtualHost.AppendQueue", "VirtualHost.AppendExchange", "VirtualHost.DeleteQueue", "VirtualHost.deleteQueue", "VirtualHost.handleAutoDeleteQueue", "NewVhost")
	_ = token.NoPos
	return nil
}
