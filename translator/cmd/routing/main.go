package main

import (
	"fmt"
	"go/ast"
	"go/token"
	"strconv"
	"strings"

	"gmqverif/translator/trlib"
)

// RouteGen.v: the facts of /repo's routing code the hand-written model (coq/Route) is
// parameterised by: exchange type ids and alias maps, which per-type loop of
// GetMatchedQueues leaves early (defect F04 was exactly that), the x- / x-match / all / any
// literals and the default match type of binding.go, how MatchHeader compares values (F11),
// whether MatchTopic is the word-wise matcher (F05), the default-exchange guards of
// queueBind/queueUnbind (F50) and AppendQueue's implicit binding.
func main() { trlib.Main(map[string]trlib.Generator{"routing": genRouting}) }

const rel = "Route/gen/RouteGen.v"

type facts struct {
	ids                            map[string]int // ExTypeDirect.. -> id
	idAlias                        [][2]string    // (const name, alias)
	aliasID                        [][2]string    // (alias, const name)
	early                          map[string]bool
	xPrefix, xMatch, all, any      string
	defaultAll                     bool
	xmatchBytes                    bool
	cmpDeep                        bool
	wordwise                       bool
	bindRefuses, unbindRefuses     bool
	defaultBinding                 bool
	problems                       []string
}

func (f *facts) bad(format string, a ...interface{}) { f.problems = append(f.problems, fmt.Sprintf(format, a...)) }

func unquote(e ast.Expr) (string, bool) {
	l, ok := e.(*ast.BasicLit)
	if !ok || l.Kind != token.STRING {
		return "", false
	}
	s, err := strconv.Unquote(l.Value)
	return s, err == nil
}

func coqBytes(s string) string {
	parts := make([]string, 0, len(s))
	for i := 0; i < len(s); i++ {
		parts = append(parts, strconv.Itoa(int(s[i])))
	}
	return "[" + strings.Join(parts, "; ") + "]"
}

// contains reports whether any node under n satisfies p
func contains(n ast.Node, p func(ast.Node) bool) bool {
	found := false
	if n == nil {
		return false
	}
	ast.Inspect(n, func(x ast.Node) bool {
		if x != nil && p(x) {
			found = true
		}
		return !found
	})
	return found
}

func isCallTo(n ast.Node, name string) bool {
	c, ok := n.(*ast.CallExpr)
	return ok && trlib.ExprString(c.Fun) == name
}

func exchangeFacts(c *trlib.Ctx, f *facts) {
	file, err := c.Parse("exchange/exchange.go")
	if err != nil {
		f.bad("exchange.go: %v", err)
		return
	}
	c.RecordShapes("exchange/exchange.go", file, "Exchange.AppendBinding", "Exchange.RemoveBinding",
		"Exchange.RemoveQueueBindings", "Exchange.GetMatchedQueues", "GetExchangeTypeAlias", "GetExchangeTypeID")
	// const block: ExTypeDirect = iota + k, then implicit repetition
	for _, d := range file.Decls {
		gd, ok := d.(*ast.GenDecl)
		if !ok {
			continue
		}
		if gd.Tok == token.CONST {
			off, isIota := 0, false
			for i, sp := range gd.Specs {
				vs := sp.(*ast.ValueSpec)
				if len(vs.Names) != 1 || !strings.HasPrefix(vs.Names[0].Name, "ExType") {
					continue
				}
				if len(vs.Values) == 1 {
					isIota = false
					switch v := vs.Values[0].(type) {
					case *ast.Ident:
						if v.Name == "iota" {
							isIota, off = true, 0
						}
					case *ast.BinaryExpr:
						if id, ok := v.X.(*ast.Ident); ok && id.Name == "iota" && v.Op == token.ADD {
							if l, ok := v.Y.(*ast.BasicLit); ok {
								n, _ := strconv.Atoi(l.Value)
								isIota, off = true, n
							}
						}
					case *ast.BasicLit:
						n, e := strconv.Atoi(v.Value)
						if e == nil {
							f.ids[vs.Names[0].Name] = n
							continue
						}
					}
					if !isIota {
						f.bad("const %s: value expression not understood", vs.Names[0].Name)
						continue
					}
				}
				if isIota {
					f.ids[vs.Names[0].Name] = i + off
				}
			}
		}
		if gd.Tok == token.VAR {
			for _, sp := range gd.Specs {
				vs := sp.(*ast.ValueSpec)
				if len(vs.Names) != 1 || len(vs.Values) != 1 {
					continue
				}
				cl, ok := vs.Values[0].(*ast.CompositeLit)
				if !ok {
					continue
				}
				for _, el := range cl.Elts {
					kv, ok := el.(*ast.KeyValueExpr)
					if !ok {
						continue
					}
					switch vs.Names[0].Name {
					case "exchangeTypeIDAliasMap":
						if s, ok := unquote(kv.Value); ok {
							f.idAlias = append(f.idAlias, [2]string{trlib.ExprString(kv.Key), s})
						}
					case "exchangeTypeAliasIDMap":
						if s, ok := unquote(kv.Key); ok {
							f.aliasID = append(f.aliasID, [2]string{s, trlib.ExprString(kv.Value)})
						}
					}
				}
			}
		}
	}
	for _, n := range []string{"ExTypeDirect", "ExTypeFanout", "ExTypeTopic", "ExTypeHeaders"} {
		if _, ok := f.ids[n]; !ok {
			f.bad("constant %s not found", n)
		}
	}
	// GetMatchedQueues: per case, the range loop, the Match method, early exit
	fd := trlib.FuncDecl(file, "Exchange.GetMatchedQueues")
	if fd == nil {
		f.bad("GetMatchedQueues not found")
		return
	}
	want := map[string]string{"ExTypeDirect": "MatchDirect", "ExTypeFanout": "MatchFanout", "ExTypeTopic": "MatchTopic", "ExTypeHeaders": "MatchHeader"}
	seen := map[string]bool{}
	ast.Inspect(fd.Body, func(n ast.Node) bool {
		sw, ok := n.(*ast.SwitchStmt)
		if !ok {
			return true
		}
		if trlib.ExprString(sw.Tag) != "ex.exType" {
			f.bad("GetMatchedQueues: switch on %s", trlib.ExprString(sw.Tag))
			return false
		}
		for _, st := range sw.Body.List {
			cc := st.(*ast.CaseClause)
			if len(cc.List) != 1 {
				f.bad("GetMatchedQueues: case with %d expressions", len(cc.List))
				continue
			}
			name := trlib.ExprString(cc.List[0])
			m, known := want[name]
			if !known {
				f.bad("GetMatchedQueues: unknown case %s", name)
				continue
			}
			seen[name] = true
			var loop *ast.RangeStmt
			for _, s := range cc.Body {
				if r, ok := s.(*ast.RangeStmt); ok {
					if loop != nil {
						f.bad("GetMatchedQueues %s: more than one loop", name)
					}
					loop = r
				}
			}
			if loop == nil || trlib.ExprString(loop.X) != "ex.bindings" {
				f.bad("GetMatchedQueues %s: no loop over ex.bindings", name)
				continue
			}
			if len(loop.Body.List) != 1 {
				f.bad("GetMatchedQueues %s: loop body has %d statements", name, len(loop.Body.List))
				continue
			}
			ifs, ok := loop.Body.List[0].(*ast.IfStmt)
			if !ok || ifs.Else != nil || ifs.Init != nil {
				f.bad("GetMatchedQueues %s: loop body is not a plain if", name)
				continue
			}
			call, ok := ifs.Cond.(*ast.CallExpr)
			if !ok || trlib.ExprString(call.Fun) != "bind."+m {
				f.bad("GetMatchedQueues %s: condition is %s", name, trlib.ExprString(ifs.Cond))
				continue
			}
			if !contains(ifs.Body, func(x ast.Node) bool {
				as, ok := x.(*ast.AssignStmt)
				return ok && len(as.Lhs) == 1 && trlib.ExprString(as.Lhs[0]) == "matchedQueues[bind.GetQueue()]"
			}) {
				f.bad("GetMatchedQueues %s: no matchedQueues[bind.GetQueue()] assignment", name)
			}
			f.early[name] = contains(loop.Body, func(x ast.Node) bool {
				switch b := x.(type) {
				case *ast.ReturnStmt:
					return true
				case *ast.BranchStmt:
					return b.Tok == token.BREAK || b.Tok == token.GOTO
				}
				return false
			})
		}
		return false
	})
	for n := range want {
		if !seen[n] {
			f.bad("GetMatchedQueues: no case %s", n)
		}
	}
}

func bindingFacts(c *trlib.Ctx, f *facts) {
	file, err := c.Parse("binding/binding.go")
	if err != nil {
		f.bad("binding.go: %v", err)
		return
	}
	c.RecordShapes("binding/binding.go", file, "NewBinding", "topicWords", "parseTopicPattern", "matchTopicWords",
		"Binding.MatchDirect", "Binding.MatchFanout", "Binding.MatchTopic", "Binding.MatchHeader", "Binding.Equal", "Binding.GetName")
	// NewBinding: (*arguments)["x-match"], xmatch == "all" -> MatchAll, == "any" -> MatchAny, else-branch default
	if fd := trlib.FuncDecl(file, "NewBinding"); fd != nil {
		ast.Inspect(fd.Body, func(n ast.Node) bool {
			switch x := n.(type) {
			case *ast.TypeAssertExpr:
				// xmatch.([]byte) followed by xmatch = string(raw): a long string of the 0-9-1 dialect is read like a string
				if trlib.ExprString(x.X) == "xmatch" && x.Type != nil && trlib.ExprString(x.Type) == "[]byte" {
					f.xmatchBytes = contains(fd.Body, func(y ast.Node) bool {
						as, ok := y.(*ast.AssignStmt)
						if !ok || len(as.Lhs) != 1 || len(as.Rhs) != 1 || trlib.ExprString(as.Lhs[0]) != "xmatch" {
							return false
						}
						cl, ok := as.Rhs[0].(*ast.CallExpr)
						return ok && trlib.ExprString(cl.Fun) == "string"
					})
					if !f.xmatchBytes {
						f.bad("NewBinding: xmatch.([]byte) without xmatch = string(..)")
					}
				}
			case *ast.IndexExpr:
				if s, ok := unquote(x.Index); ok && trlib.ExprString(x.X) == "(*arguments)" {
					f.xMatch = s
				}
			case *ast.IfStmt:
				if be, ok := x.Cond.(*ast.BinaryExpr); ok && be.Op == token.EQL && trlib.ExprString(be.X) == "xmatch" {
					if s, ok := unquote(be.Y); ok && len(x.Body.List) == 1 {
						switch trlib.ExprString(x.Body.List[0].(ast.Node).(*ast.AssignStmt).Rhs[0]) {
						case "MatchAll":
							f.all = s
						case "MatchAny":
							f.any = s
						}
					}
				}
				if id, ok := x.Cond.(*ast.Ident); ok && id.Name == "ok" && x.Else != nil {
					if blk, ok := x.Else.(*ast.BlockStmt); ok && len(blk.List) == 1 {
						if as, ok := blk.List[0].(*ast.AssignStmt); ok && trlib.ExprString(as.Lhs[0]) == "binding.MatchType" {
							switch trlib.ExprString(as.Rhs[0]) {
							case "MatchAll":
								f.defaultAll = true
							case "MatchAny":
								f.defaultAll = false
							default:
								f.bad("NewBinding: default match type %s", trlib.ExprString(as.Rhs[0]))
							}
							return true
						}
					}
					f.bad("NewBinding: else branch of `if ok` not understood")
				}
			}
			return true
		})
	} else {
		f.bad("NewBinding not found")
	}
	if f.xMatch == "" || f.all == "" || f.any == "" {
		f.bad("NewBinding: x-match literals not found (%q %q %q)", f.xMatch, f.all, f.any)
	}
	// MatchAll must be the zero value (a binding without arguments never assigns MatchType)
	for _, d := range file.Decls {
		if gd, ok := d.(*ast.GenDecl); ok && gd.Tok == token.CONST {
			for i, sp := range gd.Specs {
				vs := sp.(*ast.ValueSpec)
				if vs.Names[0].Name == "MatchAll" && !(i == 0 && len(vs.Values) == 1 && trlib.ExprString(vs.Values[0]) == "iota") {
					f.bad("MatchAll is not the zero value of MatchType")
				}
			}
		}
	}
	// MatchHeader: prefix literal and the value comparison
	if fd := trlib.FuncDecl(file, "Binding.MatchHeader"); fd != nil {
		deep, iface := false, false
		ast.Inspect(fd.Body, func(n ast.Node) bool {
			switch x := n.(type) {
			case *ast.CallExpr:
				if trlib.ExprString(x.Fun) == "strings.HasPrefix" && len(x.Args) == 2 && trlib.ExprString(x.Args[0]) == "key" {
					if s, ok := unquote(x.Args[1]); ok {
						f.xPrefix = s
					}
				}
				if trlib.ExprString(x.Fun) == "reflect.DeepEqual" && len(x.Args) == 2 {
					a, b := trlib.ExprString(x.Args[0]), trlib.ExprString(x.Args[1])
					if (a == "value" && b == "val") || (a == "val" && b == "value") {
						deep = true
					}
				}
			case *ast.BinaryExpr:
				a, b := trlib.ExprString(x.X), trlib.ExprString(x.Y)
				if x.Op == token.EQL && ((a == "value" && b == "val") || (a == "val" && b == "value")) {
					iface = true
				}
			}
			return true
		})
		switch {
		case deep && !iface:
			f.cmpDeep = true
		case iface && !deep:
			f.cmpDeep = false
		default:
			f.cmpDeep = true
			f.bad("MatchHeader: value comparison not understood (DeepEqual=%v, ===%v)", deep, iface)
		}
		if f.xPrefix == "" {
			f.bad("MatchHeader: strings.HasPrefix(key, ..) not found")
		}
	} else {
		f.bad("MatchHeader not found")
	}
	// MatchTopic: word-wise matcher, no regexp
	usesRegexp := false
	for _, im := range file.Imports {
		if im.Path.Value == `"regexp"` {
			usesRegexp = true
		}
	}
	if fd := trlib.FuncDecl(file, "Binding.MatchTopic"); fd != nil {
		f.wordwise = !usesRegexp && contains(fd.Body, func(n ast.Node) bool { return isCallTo(n, "matchTopicWords") }) &&
			trlib.FuncDecl(file, "matchTopicWords") != nil
	} else {
		f.bad("MatchTopic not found")
	}
}

func refusesDefault(fd *ast.FuncDecl) bool {
	return contains(fd.Body, func(n ast.Node) bool {
		ifs, ok := n.(*ast.IfStmt)
		if !ok {
			return false
		}
		cond := trlib.ExprString(ifs.Cond)
		if cond != "ex.GetName() == exDefaultName" && cond != "method.Exchange == exDefaultName" {
			return false
		}
		return len(ifs.Body.List) > 0 && contains(ifs.Body, func(x ast.Node) bool { _, ok := x.(*ast.ReturnStmt); return ok })
	})
}

func serverFacts(c *trlib.Ctx, f *facts) {
	file, err := c.Parse("server/queueMethods.go")
	if err != nil {
		f.bad("queueMethods.go: %v", err)
	} else {
		c.RecordShapes("server/queueMethods.go", file, "Channel.queueBind", "Channel.queueUnbind")
		if fd := trlib.FuncDecl(file, "Channel.queueBind"); fd != nil {
			f.bindRefuses = refusesDefault(fd)
		} else {
			f.bad("queueBind not found")
		}
		if fd := trlib.FuncDecl(file, "Channel.queueUnbind"); fd != nil {
			f.unbindRefuses = refusesDefault(fd)
		} else {
			f.bad("queueUnbind not found")
		}
	}
	vf, err := c.Parse("server/vhost.go")
	if err != nil {
		f.bad("vhost.go: %v", err)
	} else {
		c.RecordShapes("server/vhost.go", vf, "VirtualHost.AppendQueue", "VirtualHost.DeleteQueue")
		if fd := trlib.FuncDecl(vf, "VirtualHost.AppendQueue"); fd != nil {
			nb := contains(fd.Body, func(n ast.Node) bool {
				cl, ok := n.(*ast.CallExpr)
				if !ok || trlib.ExprString(cl.Fun) != "binding.NewBinding" || len(cl.Args) != 5 {
					return false
				}
				return trlib.ExprString(cl.Args[0]) == "qu.GetName()" && trlib.ExprString(cl.Args[1]) == "exDefaultName" &&
					trlib.ExprString(cl.Args[2]) == "qu.GetName()" && trlib.ExprString(cl.Args[4]) == "false"
			})
			ap := contains(fd.Body, func(n ast.Node) bool { return isCallTo(n, "ex.AppendBinding") })
			f.defaultBinding = nb && ap
		} else {
			f.bad("AppendQueue not found")
		}
	}
	cf, err := c.Parse("server/channel.go")
	if err == nil {
		c.RecordShapes("server/channel.go", cf, "Channel.handleContentBody")
	}
}

func genRouting(c *trlib.Ctx) error {
	f := &facts{ids: map[string]int{}, early: map[string]bool{}}
	exchangeFacts(c, f)
	bindingFacts(c, f)
	serverFacts(c, f)
	how := "from exchange/exchange.go, binding/binding.go, server/queueMethods.go, server/vhost.go"
	if len(f.problems) > 0 {
		c.Unrec(rel, strings.Join(f.problems, "; "))
		how = "PARTLY UNRECOGNISED (" + strings.Join(f.problems, "; ") + "): unread facts fall back to the repaired behaviour"
		// fallbacks for whatever could not be read
		for i, n := range []string{"ExTypeDirect", "ExTypeFanout", "ExTypeTopic", "ExTypeHeaders"} {
			if _, ok := f.ids[n]; !ok {
				f.ids[n] = i + 1
			}
		}
		if f.xPrefix == "" {
			f.xPrefix = "x-"
		}
		if f.xMatch == "" {
			f.xMatch = "x-match"
		}
		if f.all == "" {
			f.all = "all"
		}
		if f.any == "" {
			f.any = "any"
		}
	} else {
		c.Ok(rel)
	}
	var sb strings.Builder
	sb.WriteString("(* GENERATED by /verif/translator/cmd/routing " + how + ". Do not edit. *)\n")
	sb.WriteString("From Coq Require Import List NArith Bool.\nImport ListNotations.\nFrom GMQ Require Import Route.Value Route.Cfg.\nOpen Scope N_scope.\n\n")
	cmp := "CmpIfaceEq"
	if f.cmpDeep {
		cmp = "CmpDeepEqual"
	}
	fmt.Fprintf(&sb, "Definition gen_cfg : route_cfg := {|\n")
	fmt.Fprintf(&sb, "  c_direct := %d; c_fanout := %d; c_topic := %d; c_headers := %d;\n", f.ids["ExTypeDirect"], f.ids["ExTypeFanout"], f.ids["ExTypeTopic"], f.ids["ExTypeHeaders"])
	fmt.Fprintf(&sb, "  c_early_direct := %s; c_early_fanout := %s; c_early_topic := %s; c_early_headers := %s;\n",
		trlib.CoqBool(f.early["ExTypeDirect"]), trlib.CoqBool(f.early["ExTypeFanout"]), trlib.CoqBool(f.early["ExTypeTopic"]), trlib.CoqBool(f.early["ExTypeHeaders"]))
	fmt.Fprintf(&sb, "  c_x_prefix := %s;\n  c_x_match := %s;\n  c_all := %s; c_any := %s;\n", coqBytes(f.xPrefix), coqBytes(f.xMatch), coqBytes(f.all), coqBytes(f.any))
	fmt.Fprintf(&sb, "  c_default_all := %s;\n  c_xmatch_bytes := %s;\n  c_cmp := %s;\n  c_topic_wordwise := %s;\n", trlib.CoqBool(f.defaultAll), trlib.CoqBool(f.xmatchBytes), cmp, trlib.CoqBool(f.wordwise))
	fmt.Fprintf(&sb, "  c_bind_refuses_default := %s;\n  c_unbind_refuses_default := %s;\n  c_default_binding_on_declare := %s\n|}.\n\n",
		trlib.CoqBool(f.bindRefuses), trlib.CoqBool(f.unbindRefuses), trlib.CoqBool(f.defaultBinding))
	sb.WriteString("(* exchangeTypeIDAliasMap / exchangeTypeAliasIDMap *)\nDefinition gen_type_id_alias : list (N * bytes) :=\n  [")
	for i, p := range f.idAlias {
		if i > 0 {
			sb.WriteString("; ")
		}
		fmt.Fprintf(&sb, "(%d, %s)", f.ids[p[0]], coqBytes(p[1]))
	}
	sb.WriteString("].\nDefinition gen_type_alias_id : list (bytes * N) :=\n  [")
	for i, p := range f.aliasID {
		if i > 0 {
			sb.WriteString("; ")
		}
		fmt.Fprintf(&sb, "(%s, %d)", coqBytes(p[0]), f.ids[p[1]])
	}
	sb.WriteString("].\n")
	return c.Write(rel, sb.String())
}
