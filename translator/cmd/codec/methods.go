package main

import (
	"fmt"
	"go/ast"
	"go/token"
	"sort"
	"strconv"
	"strings"

	"gmqverif/translator/trlib"
)

const methodsRel = "Codec/gen/MethodsGen.v"
const methodsSrc = "amqp/methods_generated.go"

var goTypeKind = map[string]string{
	"byte": "KOctet", "uint8": "KOctet", "uint16": "KShort", "uint32": "KLong", "uint64": "KLonglong",
	"string": "KShortstr", "[]byte": "KLongstr", "*Table": "KTable", "bool": "KBit", "time.Time": "KTimestamp",
}
var readFnKind = map[string]string{
	"ReadOctet": "KOctet", "ReadShort": "KShort", "ReadLong": "KLong", "ReadLonglong": "KLonglong",
	"ReadShortstr": "KShortstr", "ReadLongstr": "KLongstr", "ReadTable": "KTable", "ReadTimestamp": "KTimestamp",
}
var writeFnKind = map[string]string{
	"WriteOctet": "KOctet", "WriteShort": "KShort", "WriteLong": "KLong", "WriteLonglong": "KLonglong",
	"WriteShortstr": "KShortstr", "WriteLongstr": "KLongstr", "WriteTable": "KTable", "WriteTimestamp": "KTimestamp",
}

type methodInfo struct {
	Name       string
	Fields     []specField // struct fields, kind from the Go type
	Class, ID  string
	Sync       string
	FrameType  string
	Read       []string // Coq rstep terms
	Write      []string // Coq wstep terms
	Problems   []string
	FromSpec   bool
	haveStruct bool
}

func identName(e ast.Expr) string {
	if id, ok := e.(*ast.Ident); ok {
		return id.Name
	}
	return ""
}

// selOf returns F for an expression `recv.F`.
func selOf(e ast.Expr, recv string) (string, bool) {
	s, ok := e.(*ast.SelectorExpr)
	if !ok || identName(s.X) != recv {
		return "", false
	}
	return s.Sel.Name, true
}

func call(e ast.Expr) (string, []ast.Expr, bool) {
	ce, ok := e.(*ast.CallExpr)
	if !ok {
		return "", nil, false
	}
	switch f := ce.Fun.(type) {
	case *ast.Ident:
		return f.Name, ce.Args, true
	case *ast.SelectorExpr:
		return trlib.ExprString(f), ce.Args, true
	}
	return "", nil, false
}

// errCheck recognises `if err != nil { return ... }`; returns the comparison operator.
func errCheck(s ast.Stmt) (token.Token, bool) {
	is, ok := s.(*ast.IfStmt)
	if !ok || is.Init != nil || is.Else != nil {
		return 0, false
	}
	return errCond(is.Cond, is.Body)
}

func errCond(cond ast.Expr, body *ast.BlockStmt) (token.Token, bool) {
	be, ok := cond.(*ast.BinaryExpr)
	if !ok || identName(be.X) != "err" || identName(be.Y) != "nil" {
		return 0, false
	}
	if len(body.List) != 1 {
		return 0, false
	}
	if _, ok := body.List[0].(*ast.ReturnStmt); !ok {
		return 0, false
	}
	return be.Op, true
}

// bitIndex recognises `1 << i` and `(1<<i)`.
func bitIndex(e ast.Expr) (string, bool) {
	if p, ok := e.(*ast.ParenExpr); ok {
		e = p.X
	}
	be, ok := e.(*ast.BinaryExpr)
	if !ok || be.Op != token.SHL {
		return "", false
	}
	one, ok1 := be.X.(*ast.BasicLit)
	idx, ok2 := be.Y.(*ast.BasicLit)
	if !ok1 || !ok2 || one.Value != "1" || idx.Kind != token.INT {
		return "", false
	}
	return idx.Value, true
}

// maskTest recognises `X&(1<<i) != 0`; returns X's identifier and i.
func maskTest(e ast.Expr) (string, string, bool) {
	be, ok := e.(*ast.BinaryExpr)
	if !ok || be.Op != token.NEQ {
		return "", "", false
	}
	if z, ok := be.Y.(*ast.BasicLit); !ok || z.Value != "0" {
		return "", "", false
	}
	and, ok := be.X.(*ast.BinaryExpr)
	if !ok || and.Op != token.AND {
		return "", "", false
	}
	idx, ok := bitIndex(and.Y)
	if !ok {
		return "", "", false
	}
	return identName(and.X), idx, identName(and.X) != ""
}

func returnLit(fd *ast.FuncDecl) (string, bool) {
	if fd == nil || fd.Body == nil || len(fd.Body.List) != 1 {
		return "", false
	}
	rs, ok := fd.Body.List[0].(*ast.ReturnStmt)
	if !ok || len(rs.Results) != 1 {
		return "", false
	}
	switch v := rs.Results[0].(type) {
	case *ast.BasicLit:
		return v.Value, true
	case *ast.Ident:
		return v.Name, true
	}
	return "", false
}

func parseRead(fd *ast.FuncDecl) (steps []string, problems []string) {
	recv := fd.Recv.List[0].Names[0].Name
	list := fd.Body.List
	for i := 0; i < len(list); i++ {
		st := list[i]
		switch s := st.(type) {
		case *ast.ReturnStmt:
			if i != len(list)-1 {
				problems = append(problems, "early return in Read")
			}
			continue
		case *ast.AssignStmt:
			// method.F, err = ReadK(reader[, protoVersion])   |   bits, err := ReadOctet(reader)   |   method.F = bits&(1<<i) != 0
			if len(s.Lhs) == 2 && len(s.Rhs) == 1 && identName(s.Lhs[1]) == "err" {
				fn, args, ok := call(s.Rhs[0])
				if !ok || len(args) < 1 || identName(args[0]) != "reader" {
					problems = append(problems, "unfamiliar call in Read: "+trlib.ExprString(s.Rhs[0]))
					continue
				}
				// must be followed by `if err != nil { return err }`
				op, ok := token.Token(0), false
				if i+1 < len(list) {
					op, ok = errCheck(list[i+1])
				}
				if !ok || op != token.NEQ {
					problems = append(problems, "read of "+trlib.ExprString(s.Lhs[0])+" is not followed by `if err != nil { return err }`")
				} else {
					i++
				}
				if f, isField := selOf(s.Lhs[0], recv); isField && s.Tok == token.ASSIGN {
					k, known := readFnKind[fn]
					if !known {
						problems = append(problems, "unknown reader "+fn)
						continue
					}
					steps = append(steps, "RField "+trlib.CoqString(f)+" "+k)
				} else if identName(s.Lhs[0]) == "bits" && fn == "ReadOctet" {
					steps = append(steps, "RBitsOctet")
				} else {
					problems = append(problems, "unfamiliar assignment in Read: "+trlib.ExprString(s.Lhs[0]))
				}
				continue
			}
			if len(s.Lhs) == 1 && len(s.Rhs) == 1 && s.Tok == token.ASSIGN {
				if f, isField := selOf(s.Lhs[0], recv); isField {
					if v, idx, ok := maskTest(s.Rhs[0]); ok && v == "bits" {
						steps = append(steps, "RBit "+trlib.CoqString(f)+" "+idx)
						continue
					}
				}
			}
			problems = append(problems, "unfamiliar statement in Read")
		default:
			problems = append(problems, fmt.Sprintf("unfamiliar statement in Read (%T)", st))
		}
	}
	return
}

func parseWrite(fd *ast.FuncDecl) (steps []string, problems []string) {
	recv := fd.Recv.List[0].Names[0].Name
	list := fd.Body.List
	for i, st := range list {
		switch s := st.(type) {
		case *ast.ReturnStmt:
			if i != len(list)-1 {
				problems = append(problems, "early return in Write")
			}
		case *ast.DeclStmt:
			gd, ok := s.Decl.(*ast.GenDecl)
			if ok && gd.Tok == token.VAR && len(gd.Specs) == 1 {
				vs := gd.Specs[0].(*ast.ValueSpec)
				if len(vs.Names) == 1 && vs.Names[0].Name == "bits" && identName(vs.Type) == "byte" && len(vs.Values) == 0 {
					steps = append(steps, "WBitsInit")
					continue
				}
			}
			problems = append(problems, "unfamiliar declaration in Write")
		case *ast.IfStmt:
			if s.Init != nil {
				// if err = WriteK(writer, X[, protoVersion]); err != nil { return err }
				as, ok := s.Init.(*ast.AssignStmt)
				if !ok || len(as.Lhs) != 1 || identName(as.Lhs[0]) != "err" || len(as.Rhs) != 1 || s.Else != nil {
					problems = append(problems, "unfamiliar if-init in Write")
					continue
				}
				op, ok := errCond(s.Cond, s.Body)
				if !ok || op != token.NEQ {
					problems = append(problems, "write is not guarded by `err != nil { return err }`")
				}
				fn, args, ok := call(as.Rhs[0])
				if !ok || len(args) < 2 || identName(args[0]) != "writer" {
					problems = append(problems, "unfamiliar call in Write")
					continue
				}
				if identName(args[1]) == "bits" && fn == "WriteOctet" {
					steps = append(steps, "WBitsFlush")
					continue
				}
				f, isField := selOf(args[1], recv)
				k, known := writeFnKind[fn]
				if !isField || !known {
					problems = append(problems, "unfamiliar write "+trlib.ExprString(as.Rhs[0]))
					continue
				}
				steps = append(steps, "WField "+trlib.CoqString(f)+" "+k)
				continue
			}
			// if method.F { bits |= 1 << i }
			f, isField := selOf(s.Cond, recv)
			if isField && s.Else == nil && len(s.Body.List) == 1 {
				if as, ok := s.Body.List[0].(*ast.AssignStmt); ok && as.Tok == token.OR_ASSIGN && len(as.Lhs) == 1 && identName(as.Lhs[0]) == "bits" {
					if idx, ok := bitIndex(as.Rhs[0]); ok {
						steps = append(steps, "WBitSet "+trlib.CoqString(f)+" "+idx)
						continue
					}
				}
			}
			problems = append(problems, "unfamiliar if in Write")
		default:
			problems = append(problems, fmt.Sprintf("unfamiliar statement in Write (%T)", st))
		}
	}
	return
}

// specSteps builds the description the grammar gives: consecutive bit fields
// packed into one octet from bit 0 upwards.
func specSteps(fs []specField) (rd, wr []string) {
	i := 0
	for i < len(fs) {
		if fs[i].Kind != "KBit" {
			rd = append(rd, "RField "+trlib.CoqString(fs[i].GoName)+" "+fs[i].Kind)
			wr = append(wr, "WField "+trlib.CoqString(fs[i].GoName)+" "+fs[i].Kind)
			i++
			continue
		}
		rd = append(rd, "RBitsOctet")
		wr = append(wr, "WBitsInit")
		b := 0
		for i < len(fs) && fs[i].Kind == "KBit" {
			rd = append(rd, fmt.Sprintf("RBit %s %d", trlib.CoqString(fs[i].GoName), b))
			wr = append(wr, fmt.Sprintf("WBitSet %s %d", trlib.CoqString(fs[i].GoName), b))
			b++
			i++
		}
		wr = append(wr, "WBitsFlush")
	}
	return
}

type propRow struct{ Bit, Name, Kind string }

func genMethods(c *trlib.Ctx, spec *specData) error {
	var sb strings.Builder
	sb.WriteString("(* GENERATED by /verif/translator/cmd/codec from /repo/" + methodsSrc + ". Do not edit. *)\n")
	sb.WriteString(genHeader)
	f, err := c.Parse(methodsSrc)
	if err != nil {
		c.Unrec(methodsRel, "parse error: "+err.Error())
		return c.Write(methodsRel, sb.String()+fallbackMethods(spec))
	}
	var problems []string
	// struct types in source order
	var order []string
	infos := map[string]*methodInfo{}
	var propFields []specField
	for _, d := range f.Decls {
		gd, ok := d.(*ast.GenDecl)
		if !ok || gd.Tok != token.TYPE {
			continue
		}
		for _, sp := range gd.Specs {
			ts := sp.(*ast.TypeSpec)
			st, ok := ts.Type.(*ast.StructType)
			if !ok {
				continue
			}
			var fs []specField
			bad := false
			for _, fl := range st.Fields.List {
				t := trlib.ExprString(fl.Type)
				for _, n := range fl.Names {
					if ts.Name.Name == "BasicPropertyList" {
						k, ok := goTypeKind[strings.TrimPrefix(t, "*")]
						if t == "*Table" {
							k, ok = "KTable", true
						}
						if !ok || !strings.HasPrefix(t, "*") {
							problems = append(problems, "BasicPropertyList."+n.Name+": unfamiliar type "+t)
							k = "KShortstr"
						}
						fs = append(fs, specField{n.Name, k})
						continue
					}
					k, ok := goTypeKind[t]
					if !ok {
						bad = true
						problems = append(problems, ts.Name.Name+"."+n.Name+": unfamiliar type "+t)
						continue
					}
					fs = append(fs, specField{n.Name, k})
				}
			}
			if ts.Name.Name == "BasicPropertyList" {
				propFields = fs
				continue
			}
			mi := &methodInfo{Name: ts.Name.Name, Fields: fs, haveStruct: !bad}
			infos[mi.Name] = mi
			order = append(order, mi.Name)
		}
	}
	lit := func(mi *methodInfo, fn string) string {
		v, ok := returnLit(trlib.FuncDecl(f, mi.Name+"."+fn))
		if !ok {
			mi.Problems = append(mi.Problems, fn+"() is not a single literal return")
		}
		return v
	}
	for _, n := range order {
		mi := infos[n]
		if nm := lit(mi, "Name"); nm != strconv.Quote(mi.Name) {
			mi.Problems = append(mi.Problems, "Name() returns "+nm)
		}
		mi.Class, mi.ID, mi.Sync, mi.FrameType = lit(mi, "ClassIdentifier"), lit(mi, "MethodIdentifier"), lit(mi, "Sync"), lit(mi, "FrameType")
		if _, err := strconv.ParseUint(mi.Class, 10, 16); err != nil {
			mi.Problems = append(mi.Problems, "class id not a number")
			mi.Class = "0"
		}
		if _, err := strconv.ParseUint(mi.ID, 10, 16); err != nil {
			mi.Problems = append(mi.Problems, "method id not a number")
			mi.ID = "0"
		}
		if mi.Sync != "true" && mi.Sync != "false" {
			mi.Sync = "false"
		}
		if mi.FrameType != "1" {
			mi.Problems = append(mi.Problems, "FrameType() returns "+mi.FrameType)
		}
		rd, wr := trlib.FuncDecl(f, n+".Read"), trlib.FuncDecl(f, n+".Write")
		if rd == nil || wr == nil || rd.Body == nil || wr.Body == nil {
			mi.Problems = append(mi.Problems, "Read or Write missing")
		} else {
			var p1, p2 []string
			mi.Read, p1 = parseRead(rd)
			mi.Write, p2 = parseWrite(wr)
			mi.Problems = append(mi.Problems, p1...)
			mi.Problems = append(mi.Problems, p2...)
		}
		if !mi.haveStruct {
			mi.Problems = append(mi.Problems, "struct has fields of unfamiliar type")
		}
		if len(mi.Problems) > 0 {
			// fall back to what the grammar says about this method (the model is then the grammar;
			// the correspondence run decides whether the code still agrees with it)
			problems = append(problems, n+": "+strings.Join(mi.Problems, "; "))
			if spec != nil {
				if sm := spec.byGoName[n]; sm != nil {
					mi.Fields = sm.Fields
					mi.Read, mi.Write = specSteps(sm.Fields)
					mi.FromSpec = true
				}
			}
		}
	}
	c.RecordShapes(methodsSrc, f, "ReadMethod", "WriteMethod", "BasicPropertyList.Read", "BasicPropertyList.Write")

	sb.WriteString("Definition all_methods : list method_desc := [\n")
	for i, n := range order {
		mi := infos[n]
		sep := ";"
		if i == len(order)-1 {
			sep = ""
		}
		fmt.Fprintf(&sb, "  {| m_name := %s; m_class := %s; m_id := %s; m_sync := %s; m_from_spec := %s;\n     m_fields := %s;\n     m_read := [%s];\n     m_write := [%s] |}%s\n",
			trlib.CoqString(mi.Name), mi.Class, mi.ID, mi.Sync, trlib.CoqBool(mi.FromSpec), coqFieldList(mi.Fields),
			strings.Join(mi.Read, "; "), strings.Join(mi.Write, "; "), sep)
	}
	sb.WriteString("].\n\n")

	// ReadMethod dispatch
	disp, dp := parseDispatch(trlib.FuncDecl(f, "ReadMethod"))
	problems = append(problems, dp...)
	if len(dp) > 0 && len(disp) == 0 {
		// fallback: what the method structs say about themselves
		for _, n := range order {
			disp = append(disp, [3]string{infos[n].Class, infos[n].ID, n})
		}
	}
	rows := make([]string, len(disp))
	for i, d := range disp {
		rows[i] = fmt.Sprintf("(%s, %s, %s)", d[0], d[1], trlib.CoqString(d[2]))
	}
	sb.WriteString("(* the (class id, method id) -> struct switch of ReadMethod *)\nDefinition read_dispatch : list (N * N * string) := [\n  " + strings.Join(rows, ";\n  ") + "].\n\n")
	problems = append(problems, checkWriteMethod(trlib.FuncDecl(f, "WriteMethod"))...)

	// BasicPropertyList
	pr, pw, pp := parseProps(f)
	problems = append(problems, pp...)
	if len(pp) > 0 && spec != nil {
		pr, pw = nil, nil
		for i, p := range spec.Properties {
			pr = append(pr, propRow{fmt.Sprint(15 - i), p.GoName, p.Kind})
			pw = append(pw, propRow{fmt.Sprint(15 - i), p.GoName, p.Kind})
		}
		propFields = spec.Properties
	}
	sb.WriteString("(* BasicPropertyList: struct fields, then flag bit <-> field <-> kind as READ and as WRITTEN *)\n")
	sb.WriteString("Definition props_fields : list (string * fkind) := " + coqFieldList(propFields) + ".\n")
	emitProps := func(name string, rs []propRow) {
		parts := make([]string, len(rs))
		for i, r := range rs {
			parts[i] = fmt.Sprintf("(%s, %s, %s)", r.Bit, trlib.CoqString(r.Name), r.Kind)
		}
		sb.WriteString("Definition " + name + " : list (N * string * fkind) := [" + strings.Join(parts, "; ") + "].\n")
	}
	emitProps("props_read", pr)
	emitProps("props_write", pw)

	if len(problems) > 0 {
		sort.Strings(problems)
		c.Unrec(methodsRel, strings.Join(problems, " | "))
	} else {
		c.Ok(methodsRel)
	}
	return c.Write(methodsRel, sb.String())
}

func fallbackMethods(spec *specData) string {
	var sb strings.Builder
	sb.WriteString("Definition all_methods : list method_desc := [\n")
	var disp []string
	if spec != nil {
		for i, m := range spec.Methods {
			rd, wr := specSteps(m.Fields)
			sep := ";"
			if i == len(spec.Methods)-1 {
				sep = ""
			}
			fmt.Fprintf(&sb, "  {| m_name := %s; m_class := %d; m_id := %d; m_sync := %s; m_from_spec := true;\n     m_fields := %s;\n     m_read := [%s];\n     m_write := [%s] |}%s\n",
				trlib.CoqString(m.GoName), m.Class, m.ID, trlib.CoqBool(m.Sync), coqFieldList(m.Fields), strings.Join(rd, "; "), strings.Join(wr, "; "), sep)
			disp = append(disp, fmt.Sprintf("(%d, %d, %s)", m.Class, m.ID, trlib.CoqString(m.GoName)))
		}
	}
	sb.WriteString("].\n\nDefinition read_dispatch : list (N * N * string) := [" + strings.Join(disp, "; ") + "].\n\n")
	var props []string
	var pf []specField
	if spec != nil {
		pf = spec.Properties
		for i, p := range spec.Properties {
			props = append(props, fmt.Sprintf("(%d, %s, %s)", 15-i, trlib.CoqString(p.GoName), p.Kind))
		}
	}
	sb.WriteString("Definition props_fields : list (string * fkind) := " + coqFieldList(pf) + ".\n")
	sb.WriteString("Definition props_read : list (N * string * fkind) := [" + strings.Join(props, "; ") + "].\n")
	sb.WriteString("Definition props_write : list (N * string * fkind) := [" + strings.Join(props, "; ") + "].\n")
	return sb.String()
}

// parseDispatch reads `switch classID { case C: switch methodID { case M: var method = &X{}; if err := method.Read(..); err != nil {return nil, err}; return method, nil } }`.
func parseDispatch(fd *ast.FuncDecl) (rows [][3]string, problems []string) {
	if fd == nil || fd.Body == nil {
		return nil, []string{"ReadMethod not found"}
	}
	var outer *ast.SwitchStmt
	for _, st := range fd.Body.List {
		if sw, ok := st.(*ast.SwitchStmt); ok && identName(sw.Tag) == "classID" {
			outer = sw
		}
	}
	if outer == nil {
		return nil, []string{"ReadMethod: no switch on classID"}
	}
	// the ids must come from two ReadShort calls in this order
	var idReads []string
	for _, st := range fd.Body.List {
		if as, ok := st.(*ast.AssignStmt); ok && len(as.Lhs) == 2 && len(as.Rhs) == 1 {
			if fn, _, ok := call(as.Rhs[0]); ok {
				idReads = append(idReads, identName(as.Lhs[0])+"="+fn)
			}
		}
	}
	if strings.Join(idReads, ",") != "classID=ReadShort,methodID=ReadShort" {
		problems = append(problems, "ReadMethod: ids are not read as classID=ReadShort, methodID=ReadShort but "+strings.Join(idReads, ","))
	}
	for _, cc := range outer.Body.List {
		ccl := cc.(*ast.CaseClause)
		if len(ccl.List) != 1 || len(ccl.Body) != 1 {
			problems = append(problems, "ReadMethod: unfamiliar class case")
			continue
		}
		cl, ok := ccl.List[0].(*ast.BasicLit)
		inner, ok2 := ccl.Body[0].(*ast.SwitchStmt)
		if !ok || !ok2 || identName(inner.Tag) != "methodID" {
			problems = append(problems, "ReadMethod: unfamiliar class case body")
			continue
		}
		for _, mc := range inner.Body.List {
			mcl := mc.(*ast.CaseClause)
			if len(mcl.List) != 1 || len(mcl.Body) != 3 {
				problems = append(problems, "ReadMethod: unfamiliar method case in class "+cl.Value)
				continue
			}
			ml, ok := mcl.List[0].(*ast.BasicLit)
			ds, ok2 := mcl.Body[0].(*ast.DeclStmt)
			if !ok || !ok2 {
				problems = append(problems, "ReadMethod: unfamiliar method case in class "+cl.Value)
				continue
			}
			name := ""
			if gd, ok := ds.Decl.(*ast.GenDecl); ok && len(gd.Specs) == 1 {
				if vs, ok := gd.Specs[0].(*ast.ValueSpec); ok && len(vs.Values) == 1 {
					if ue, ok := vs.Values[0].(*ast.UnaryExpr); ok && ue.Op == token.AND {
						if cl, ok := ue.X.(*ast.CompositeLit); ok {
							name = identName(cl.Type)
						}
					}
				}
			}
			// if err := method.Read(reader, protoVersion); err != nil { return nil, err }
			okRead := false
			if is, ok := mcl.Body[1].(*ast.IfStmt); ok && is.Init != nil {
				if as, ok := is.Init.(*ast.AssignStmt); ok && len(as.Rhs) == 1 {
					if fn, _, ok := call(as.Rhs[0]); ok && fn == "method.Read" {
						if be, ok := is.Cond.(*ast.BinaryExpr); ok && be.Op == token.NEQ && identName(be.X) == "err" && identName(be.Y) == "nil" {
							okRead = true
						}
					}
				}
			}
			okRet := false
			if rs, ok := mcl.Body[2].(*ast.ReturnStmt); ok && len(rs.Results) == 2 && identName(rs.Results[0]) == "method" && identName(rs.Results[1]) == "nil" {
				okRet = true
			}
			if name == "" || !okRead || !okRet {
				problems = append(problems, fmt.Sprintf("ReadMethod: unfamiliar body for case %s.%s", cl.Value, ml.Value))
				continue
			}
			rows = append(rows, [3]string{cl.Value, ml.Value, name})
		}
	}
	return
}

// checkWriteMethod: WriteShort(ClassIdentifier()), WriteShort(MethodIdentifier()), method.Write, in this order.
func checkWriteMethod(fd *ast.FuncDecl) []string {
	if fd == nil || fd.Body == nil {
		return []string{"WriteMethod not found"}
	}
	var seq []string
	for _, st := range fd.Body.List {
		is, ok := st.(*ast.IfStmt)
		if !ok || is.Init == nil {
			continue
		}
		as, ok := is.Init.(*ast.AssignStmt)
		if !ok || len(as.Rhs) != 1 {
			continue
		}
		op, ok := errCond(is.Cond, is.Body)
		if !ok || op != token.NEQ {
			return []string{"WriteMethod: unfamiliar error test"}
		}
		fn, args, ok := call(as.Rhs[0])
		if !ok {
			continue
		}
		item := fn
		if len(args) >= 2 {
			if f2, _, ok := call(args[1]); ok {
				item += "(" + f2 + ")"
			}
		}
		seq = append(seq, item)
	}
	want := "WriteShort(method.ClassIdentifier),WriteShort(method.MethodIdentifier),method.Write"
	if got := strings.Join(seq, ","); got != want {
		return []string{"WriteMethod: sequence is " + got}
	}
	return nil
}

func parseProps(f *ast.File) (rd, wr []propRow, problems []string) {
	rfd, wfd := trlib.FuncDecl(f, "BasicPropertyList.Read"), trlib.FuncDecl(f, "BasicPropertyList.Write")
	if rfd == nil || wfd == nil {
		return nil, nil, []string{"BasicPropertyList Read/Write not found"}
	}
	for _, st := range rfd.Body.List {
		if _, ok := st.(*ast.ReturnStmt); ok {
			continue
		}
		is, ok := st.(*ast.IfStmt)
		if !ok || is.Init != nil || is.Else != nil || len(is.Body.List) != 3 {
			problems = append(problems, "BasicPropertyList.Read: unfamiliar statement")
			continue
		}
		v, bit, ok := maskTest(is.Cond)
		if !ok || v != "propertyFlags" {
			problems = append(problems, "BasicPropertyList.Read: unfamiliar flag test")
			continue
		}
		as, ok := is.Body.List[0].(*ast.AssignStmt)
		if !ok || len(as.Lhs) != 2 || identName(as.Lhs[0]) != "value" || len(as.Rhs) != 1 {
			problems = append(problems, "BasicPropertyList.Read: unfamiliar read for bit "+bit)
			continue
		}
		fn, args, ok := call(as.Rhs[0])
		k, known := readFnKind[fn]
		if !ok || !known || len(args) < 1 || identName(args[0]) != "reader" {
			problems = append(problems, "BasicPropertyList.Read: unfamiliar reader for bit "+bit)
			continue
		}
		if op, ok := errCheck(is.Body.List[1]); !ok || op != token.NEQ {
			problems = append(problems, "BasicPropertyList.Read: unfamiliar error test for bit "+bit)
			continue
		}
		set, ok := is.Body.List[2].(*ast.AssignStmt)
		name := ""
		if ok && len(set.Lhs) == 1 && len(set.Rhs) == 1 {
			if n, ok := selOf(set.Lhs[0], "pList"); ok {
				switch r := set.Rhs[0].(type) {
				case *ast.UnaryExpr:
					if r.Op == token.AND && identName(r.X) == "value" {
						name = n
					}
				case *ast.Ident:
					if r.Name == "value" && k == "KTable" {
						name = n
					}
				}
			}
		}
		if name == "" {
			problems = append(problems, "BasicPropertyList.Read: unfamiliar store for bit "+bit)
			continue
		}
		rd = append(rd, propRow{bit, name, k})
	}
	for _, st := range wfd.Body.List {
		if _, ok := st.(*ast.ReturnStmt); ok {
			continue
		}
		is, ok := st.(*ast.IfStmt)
		if !ok || is.Init != nil || is.Else != nil || len(is.Body.List) != 2 {
			problems = append(problems, "BasicPropertyList.Write: unfamiliar statement")
			continue
		}
		// if pList.X != nil
		be, ok := is.Cond.(*ast.BinaryExpr)
		name := ""
		if ok && be.Op == token.NEQ && identName(be.Y) == "nil" {
			name, _ = selOf(be.X, "pList")
		}
		if name == "" {
			problems = append(problems, "BasicPropertyList.Write: unfamiliar presence test")
			continue
		}
		as, ok := is.Body.List[0].(*ast.AssignStmt)
		bit := ""
		if ok && as.Tok == token.OR_ASSIGN && len(as.Lhs) == 1 && identName(as.Lhs[0]) == "propertyFlags" {
			bit, _ = bitIndex(as.Rhs[0])
		}
		if bit == "" {
			problems = append(problems, "BasicPropertyList.Write: unfamiliar flag update for "+name)
			continue
		}
		w, ok := is.Body.List[1].(*ast.IfStmt)
		if !ok || w.Init == nil {
			problems = append(problems, "BasicPropertyList.Write: unfamiliar write for "+name)
			continue
		}
		was, ok := w.Init.(*ast.AssignStmt)
		if !ok || len(was.Rhs) != 1 {
			problems = append(problems, "BasicPropertyList.Write: unfamiliar write for "+name)
			continue
		}
		if op, ok := errCond(w.Cond, w.Body); !ok || op != token.NEQ {
			problems = append(problems, "BasicPropertyList.Write: unfamiliar error test for "+name)
			continue
		}
		fn, args, ok := call(was.Rhs[0])
		k, known := writeFnKind[fn]
		if !ok || !known || len(args) < 2 || identName(args[0]) != "writer" {
			problems = append(problems, "BasicPropertyList.Write: unfamiliar writer for "+name)
			continue
		}
		// argument: *pList.X  (or pList.X for the table)
		arg := args[1]
		written := ""
		if se, ok := arg.(*ast.StarExpr); ok {
			written, _ = selOf(se.X, "pList")
		} else if k == "KTable" {
			written, _ = selOf(arg, "pList")
		}
		if written != name {
			problems = append(problems, "BasicPropertyList.Write: tests "+name+" but writes "+trlib.ExprString(arg))
			continue
		}
		wr = append(wr, propRow{bit, name, k})
	}
	return
}
