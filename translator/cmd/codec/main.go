// codec translator: regenerates the table-like parts of the Coq codec model
// from /repo's current sources on every run.
//
//	amqp/methods_generated.go        -> Codec/gen/MethodsGen.v  (method descriptions as READ and as WRITTEN,
//	                                     ReadMethod dispatch table, BasicPropertyList description)
//	amqp/readers_writers.go          -> Codec/gen/TagsGen.v     (field-value tag tables of both dialects, both
//	                                     directions, err-test polarity, allocation shapes of the length readers)
//	amqp/constants_generated.go (+ext)-> Codec/gen/ConstGen.v   (frame constants, reply codes, class/method ids)
//	amqp/types.go (Message.Marshal/Unmarshal) -> Codec/gen/RecordsGen.v (delivery-count trailer written / read)
//	protocol/amqp0-9-1.extended.xml  -> Codec/gen/SpecGen.v     (the grammar: classes, methods, fields resolved to
//	                                     base types, synchronous, content, chassis, responses, constants)
//
// A shape that is not understood is reported as "unrecognised" and a compilable
// fallback is emitted (for a method: the description the XML grammar gives).
package main

import (
	"gmqverif/translator/trlib"
)

func main() {
	trlib.Main(map[string]trlib.Generator{"codec": genCodec})
}

func genCodec(c *trlib.Ctx) error {
	spec, specErr := loadSpec(c)
	if err := genSpec(c, spec, specErr); err != nil {
		return err
	}
	if err := genMethods(c, spec); err != nil {
		return err
	}
	if err := genTags(c); err != nil {
		return err
	}
	if err := genRecords(c); err != nil {
		return err
	}
	return genConsts(c)
}
