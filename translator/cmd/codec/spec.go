package main

import (
	"encoding/xml"
	"fmt"
	"os"
	"path/filepath"
	"strings"

	"gmqverif/translator/trlib"
)

const specRel = "Codec/gen/SpecGen.v"
const specXML = "protocol/amqp0-9-1.extended.xml"

type xChassis struct {
	Name      string `xml:"name,attr"`
	Implement string `xml:"implement,attr"`
}
type xResponse struct {
	Name string `xml:"name,attr"`
}
type xField struct {
	Name     string `xml:"name,attr"`
	Domain   string `xml:"domain,attr"`
	Type     string `xml:"type,attr"`
	Reserved string `xml:"reserved,attr"`
}
type xMethod struct {
	Name        string      `xml:"name,attr"`
	Index       uint64      `xml:"index,attr"`
	Synchronous string      `xml:"synchronous,attr"`
	Content     string      `xml:"content,attr"`
	Chassis     []xChassis  `xml:"chassis"`
	Responses   []xResponse `xml:"response"`
	Fields      []xField    `xml:"field"`
}
type xClass struct {
	Name    string     `xml:"name,attr"`
	Index   uint64     `xml:"index,attr"`
	Chassis []xChassis `xml:"chassis"`
	Fields  []xField   `xml:"field"`
	Methods []xMethod  `xml:"method"`
}
type xConstant struct {
	Name  string `xml:"name,attr"`
	Value uint64 `xml:"value,attr"`
	Class string `xml:"class,attr"`
}
type xDomain struct {
	Name string `xml:"name,attr"`
	Type string `xml:"type,attr"`
}
type xAmqp struct {
	Major     int         `xml:"major,attr"`
	Minor     int         `xml:"minor,attr"`
	Revision  int         `xml:"revision,attr"`
	Constants []xConstant `xml:"constant"`
	Domains   []xDomain   `xml:"domain"`
	Classes   []xClass    `xml:"class"`
}

// kinds of the AMQP grammar's base types, as Coq constructor names
var baseKinds = map[string]string{
	"octet": "KOctet", "short": "KShort", "long": "KLong", "longlong": "KLonglong",
	"shortstr": "KShortstr", "longstr": "KLongstr", "table": "KTable", "bit": "KBit", "timestamp": "KTimestamp",
}

type specField struct {
	GoName string
	Kind   string
}
type specMethod struct {
	ClassName, Name, GoName string
	Class, ID               uint64
	Sync, Content           bool
	Server, Client          bool
	Responses               []string
	Fields                  []specField
}
type specData struct {
	Methods    []specMethod
	Classes    [][2]string // name, id
	Constants  []xConstant
	Properties []specField
	byGoName   map[string]*specMethod
}

// camel follows the naming rule the repo's generator uses (part "id" -> "ID",
// other parts capitalised); re-implemented here, not imported.
func camel(kebab string) string {
	out := ""
	for _, p := range strings.Split(kebab, "-") {
		if p == "id" {
			out += "ID"
		} else if p != "" {
			out += strings.ToUpper(p[:1]) + p[1:]
		}
	}
	return out
}

func loadSpec(c *trlib.Ctx) (*specData, error) {
	raw, err := os.ReadFile(filepath.Join(c.Repo, specXML))
	if err != nil {
		return nil, err
	}
	var a xAmqp
	if err := xml.Unmarshal(raw, &a); err != nil {
		return nil, err
	}
	dom := map[string]string{}
	for _, d := range a.Domains {
		dom[d.Name] = d.Type
	}
	resolve := func(f xField) (string, error) {
		t := f.Domain
		if t == "" {
			t = f.Type
		}
		for i := 0; i < 10; i++ {
			if k, ok := baseKinds[t]; ok && (dom[t] == t || dom[t] == "") {
				return k, nil
			}
			n, ok := dom[t]
			if !ok {
				return "", fmt.Errorf("field %s: unknown domain %q", f.Name, t)
			}
			t = n
		}
		return "", fmt.Errorf("field %s: domain chain too long", f.Name)
	}
	sd := &specData{Constants: a.Constants, byGoName: map[string]*specMethod{}}
	for _, cl := range a.Classes {
		sd.Classes = append(sd.Classes, [2]string{cl.Name, fmt.Sprint(cl.Index)})
		if cl.Name == "basic" {
			for _, f := range cl.Fields {
				k, err := resolve(f)
				if err != nil {
					return nil, err
				}
				sd.Properties = append(sd.Properties, specField{camel(f.Name), k})
			}
		}
		for _, m := range cl.Methods {
			sm := specMethod{ClassName: cl.Name, Name: m.Name, GoName: camel(cl.Name + "-" + m.Name), Class: cl.Index, ID: m.Index,
				Sync: m.Synchronous == "1", Content: m.Content == "1"}
			for _, ch := range m.Chassis {
				if ch.Name == "server" {
					sm.Server = true
				}
				if ch.Name == "client" {
					sm.Client = true
				}
			}
			for _, r := range m.Responses {
				sm.Responses = append(sm.Responses, camel(cl.Name+"-"+r.Name))
			}
			for _, f := range m.Fields {
				k, err := resolve(f)
				if err != nil {
					return nil, fmt.Errorf("%s.%s: %v", cl.Name, m.Name, err)
				}
				sm.Fields = append(sm.Fields, specField{camel(f.Name), k})
			}
			sd.Methods = append(sd.Methods, sm)
		}
	}
	for i := range sd.Methods {
		sd.byGoName[sd.Methods[i].GoName] = &sd.Methods[i]
	}
	if len(sd.Methods) == 0 {
		return nil, fmt.Errorf("no methods found in %s", specXML)
	}
	return sd, nil
}

func coqFieldList(fs []specField) string {
	parts := make([]string, len(fs))
	for i, f := range fs {
		parts[i] = "(" + trlib.CoqString(f.GoName) + ", " + f.Kind + ")"
	}
	return "[" + strings.Join(parts, "; ") + "]"
}

func coqStrList(ss []string) string {
	parts := make([]string, len(ss))
	for i, s := range ss {
		parts[i] = trlib.CoqString(s)
	}
	return "[" + strings.Join(parts, "; ") + "]"
}

const genHeader = "From Coq Require Import List String NArith.\nImport ListNotations.\nFrom GMQ Require Import Codec.Desc.\nOpen Scope string_scope.\nOpen Scope N_scope.\n\n"

func genSpec(c *trlib.Ctx, sd *specData, loadErr error) error {
	var sb strings.Builder
	sb.WriteString("(* GENERATED by /verif/translator/cmd/codec from /repo/" + specXML + ". Do not edit. *)\n")
	sb.WriteString(genHeader)
	if loadErr != nil || sd == nil {
		c.Unrec(specRel, fmt.Sprint("cannot read the grammar: ", loadErr))
		sb.WriteString("Definition spec_available : bool := false.\n")
		sb.WriteString("Definition spec_methods : list spec_method := [].\nDefinition spec_classes : list (string * N) := [].\n")
		sb.WriteString("Definition spec_constants : list (string * N * string) := [].\nDefinition spec_basic_properties : list (string * fkind) := [].\n")
		return c.Write(specRel, sb.String())
	}
	sb.WriteString("Definition spec_available : bool := true.\n\n")
	sb.WriteString("Definition spec_methods : list spec_method := [\n")
	for i, m := range sd.Methods {
		sep := ";"
		if i == len(sd.Methods)-1 {
			sep = ""
		}
		fmt.Fprintf(&sb, "  {| sm_go_name := %s; sm_class_name := %s; sm_name := %s; sm_class := %d; sm_id := %d; sm_sync := %s; sm_content := %s;\n     sm_server := %s; sm_client := %s; sm_responses := %s;\n     sm_fields := %s |}%s\n",
			trlib.CoqString(m.GoName), trlib.CoqString(m.ClassName), trlib.CoqString(m.Name), m.Class, m.ID, trlib.CoqBool(m.Sync), trlib.CoqBool(m.Content),
			trlib.CoqBool(m.Server), trlib.CoqBool(m.Client), coqStrList(m.Responses), coqFieldList(m.Fields), sep)
	}
	sb.WriteString("].\n\n")
	cl := make([]string, len(sd.Classes))
	for i, k := range sd.Classes {
		cl[i] = "(" + trlib.CoqString(k[0]) + ", " + k[1] + ")"
	}
	sb.WriteString("Definition spec_classes : list (string * N) := [" + strings.Join(cl, "; ") + "].\n\n")
	cs := make([]string, len(sd.Constants))
	for i, k := range sd.Constants {
		cs[i] = fmt.Sprintf("(%s, %d, %s)", trlib.CoqString(camel(k.Name)), k.Value, trlib.CoqString(k.Class))
	}
	sb.WriteString("Definition spec_constants : list (string * N * string) := [\n  " + strings.Join(cs, ";\n  ") + "].\n\n")
	sb.WriteString("Definition spec_basic_properties : list (string * fkind) := " + coqFieldList(sd.Properties) + ".\n")
	c.Ok(specRel)
	return c.Write(specRel, sb.String())
}
