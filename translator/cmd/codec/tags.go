package main

import (
	"fmt"
	"go/ast"
	"go/token"
	"strconv"
	"strings"

	"gmqverif/translator/trlib"
)

const tagsRel = "Codec/gen/TagsGen.v"
const rwSrc = "amqp/readers_writers.go"

var goTypeCtor = map[string]string{
	"bool": "TBool", "int8": "TInt8", "uint8": "TUint8", "byte": "TUint8", "int16": "TInt16", "uint16": "TUint16",
	"int32": "TInt32", "uint32": "TUint32", "int64": "TInt64", "uint64": "TUint64", "float32": "TFloat32", "float64": "TFloat64",
	"Decimal": "TDecimal", "string": "TString", "[]byte": "TBytes", "time.Time": "TTime", "[]interface{}": "TArray",
	"*Table": "TTablePtr", "Table": "TTableVal", "nil": "TNil",
}
var goTypeWidth = map[string]int{
	"int8": 1, "uint8": 1, "byte": 1, "int16": 2, "uint16": 2, "int32": 4, "uint32": 4, "int64": 8, "uint64": 8, "float32": 4, "float64": 8,
}
var protoCtor = map[string]string{"Proto091": "D091", "ProtoRabbit": "DRabbit"}

func charLit(e ast.Expr) (int, bool) {
	// 'x'  or byte('x')
	if fn, args, ok := call(e); ok && fn == "byte" && len(args) == 1 {
		e = args[0]
	}
	bl, ok := e.(*ast.BasicLit)
	if !ok || bl.Kind != token.CHAR {
		return 0, false
	}
	s, err := strconv.Unquote(bl.Value)
	if err != nil || len(s) != 1 {
		return 0, false
	}
	return int(s[0]), true
}

type readerRow struct {
	Tag      int
	Wire, Ty string
	Inverted bool
}
type writerRow struct {
	Ty       string
	Tag      int
	Wire     string
	Inverted bool
}

// isBinaryRead recognises binary.Read(r, binary.BigEndian, &X); returns X.
func isBinaryRead(e ast.Expr) (ast.Expr, bool) {
	fn, args, ok := call(e)
	if !ok || fn != "binary.Read" || len(args) != 3 || trlib.ExprString(args[1]) != "binary.BigEndian" {
		return nil, false
	}
	ue, ok := args[2].(*ast.UnaryExpr)
	if !ok || ue.Op != token.AND {
		return nil, false
	}
	return ue.X, true
}

func isBinaryWrite(e ast.Expr) (ast.Expr, bool) {
	fn, args, ok := call(e)
	if !ok || fn != "binary.Write" || len(args) != 3 || identName(args[0]) != "writer" || trlib.ExprString(args[1]) != "binary.BigEndian" {
		return nil, false
	}
	return args[2], true
}

func parseReaderCase(cc *ast.CaseClause) (row readerRow, why string) {
	tag, ok := 0, false
	if len(cc.List) == 1 {
		tag, ok = charLit(cc.List[0])
	}
	if !ok {
		return row, "case label is not a single character"
	}
	row.Tag = tag
	varType := ""
	var reads []string // what is read, in order
	var ret ast.Expr
	sawPolarity := false
	for i, st := range cc.Body {
		switch s := st.(type) {
		case *ast.DeclStmt:
			gd, ok := s.Decl.(*ast.GenDecl)
			if !ok || len(gd.Specs) != 1 {
				return row, "unfamiliar declaration"
			}
			vs := gd.Specs[0].(*ast.ValueSpec)
			if len(vs.Names) != 1 || vs.Names[0].Name != "rData" {
				return row, "unfamiliar declaration"
			}
			if vs.Type != nil {
				varType = trlib.ExprString(vs.Type)
			} else if len(vs.Values) == 1 {
				if cl, ok := vs.Values[0].(*ast.CompositeLit); ok {
					varType = trlib.ExprString(cl.Type)
				}
			}
		case *ast.AssignStmt:
			// rData, err = ReadOctet(r)
			if len(s.Lhs) == 2 && identName(s.Lhs[0]) == "rData" && identName(s.Lhs[1]) == "err" && len(s.Rhs) == 1 {
				fn, _, ok := call(s.Rhs[0])
				if !ok {
					return row, "unfamiliar read"
				}
				reads = append(reads, fn)
				continue
			}
			return row, "unfamiliar assignment"
		case *ast.IfStmt:
			var op token.Token
			var ok bool
			if s.Init == nil {
				op, ok = errCond(s.Cond, s.Body)
				if !ok {
					return row, "unfamiliar if"
				}
			} else {
				op, ok = errCond(s.Cond, s.Body)
				if !ok {
					return row, "unfamiliar error test"
				}
				as, isAs := s.Init.(*ast.AssignStmt)
				if !isAs || len(as.Rhs) != 1 {
					return row, "unfamiliar if-init"
				}
				if x, ok := isBinaryRead(as.Rhs[0]); ok {
					reads = append(reads, "binary:"+trlib.ExprString(x))
				} else if fn, args, ok := call(as.Rhs[0]); ok && len(as.Lhs) == 2 && identName(as.Lhs[0]) == "rData" {
					item := fn
					if len(args) == 2 {
						item += ":" + trlib.ExprString(args[1])
					}
					reads = append(reads, item)
				} else {
					return row, "unfamiliar read in if-init"
				}
			}
			// every error test must return (nil, err); polarity != is the normal one
			if rs := s.Body.List[0].(*ast.ReturnStmt); len(rs.Results) != 2 || identName(rs.Results[0]) != "nil" || identName(rs.Results[1]) != "err" {
				return row, "error branch does not return nil, err"
			}
			if op == token.EQL {
				row.Inverted = true
			} else if op != token.NEQ {
				return row, "unfamiliar comparison"
			}
			sawPolarity = true
		case *ast.ReturnStmt:
			if i != len(cc.Body)-1 || len(s.Results) != 2 || identName(s.Results[1]) != "nil" {
				return row, "unfamiliar return"
			}
			ret = s.Results[0]
		default:
			return row, fmt.Sprintf("unfamiliar statement %T", st)
		}
	}
	if ret == nil {
		return row, "no final return"
	}
	_ = sawPolarity
	rs := strings.Join(reads, ",")
	// result type from the return expression
	retTy := ""
	retS := trlib.ExprString(ret)
	switch {
	case retS == "rData":
		retTy = varType
	case retS == "rData != 0" && (varType == "byte" || varType == "uint8"):
		retTy = "bool"
	case retS == "string(rData)" && varType == "[]byte":
		retTy = "string"
	case retS == "nil" && rs == "":
		retTy = "nil"
	default:
		return row, "unfamiliar result expression " + retS
	}
	ty, ok := goTypeCtor[retTy]
	if !ok {
		return row, "unfamiliar result type " + retTy
	}
	row.Ty = ty
	switch {
	case rs == "" && retTy == "nil":
		row.Wire = "WNothing"
	case rs == "ReadOctet" && retTy == "bool":
		row.Wire = "WBoolOctet"
	case rs == "binary:rData" && goTypeWidth[varType] > 0:
		row.Wire = fmt.Sprintf("WFixed %d", goTypeWidth[varType])
	case rs == "binary:rData.Scale,binary:rData.Value" && varType == "Decimal":
		row.Wire = "WDecimal"
	case rs == "ReadShortstr" && varType == "string":
		row.Wire = "WShortstr"
	case rs == "ReadLongstr" && varType == "[]byte":
		row.Wire = "WLongstr"
	case rs == "ReadTimestamp" && varType == "time.Time":
		row.Wire = "WTimestamp"
	case strings.HasPrefix(rs, "readArray:") && protoCtor[rs[10:]] != "" && varType == "[]interface{}":
		row.Wire = "WArray " + protoCtor[rs[10:]]
	case strings.HasPrefix(rs, "ReadTable:") && protoCtor[rs[10:]] != "" && varType == "*Table":
		row.Wire = "WTable " + protoCtor[rs[10:]]
	default:
		return row, "unfamiliar read sequence " + rs + " into " + varType
	}
	return row, ""
}

func parseReader(f *ast.File, name string) (rows []readerRow, problems []string) {
	fd := trlib.FuncDecl(f, name)
	if fd == nil || fd.Body == nil {
		return nil, []string{name + " not found"}
	}
	var sw *ast.SwitchStmt
	for _, st := range fd.Body.List {
		if s, ok := st.(*ast.SwitchStmt); ok && identName(s.Tag) == "vType" {
			sw = s
		}
	}
	if sw == nil {
		return nil, []string{name + ": no switch on vType"}
	}
	// vType must be the first octet
	okTag := false
	if as, ok := fd.Body.List[0].(*ast.AssignStmt); ok && len(as.Lhs) == 2 && identName(as.Lhs[0]) == "vType" && len(as.Rhs) == 1 {
		if fn, _, ok := call(as.Rhs[0]); ok && fn == "ReadOctet" {
			okTag = true
		}
	}
	if !okTag {
		problems = append(problems, name+": the tag is not read with ReadOctet first")
	}
	for _, c := range sw.Body.List {
		cc := c.(*ast.CaseClause)
		if cc.List == nil {
			problems = append(problems, name+": has a default case")
			continue
		}
		row, why := parseReaderCase(cc)
		if why != "" {
			problems = append(problems, fmt.Sprintf("%s case %s: %s", name, trlib.ExprString(cc.List[0]), why))
			continue
		}
		rows = append(rows, row)
	}
	return
}

func parseWriterCase(cc *ast.CaseClause) (row writerRow, why string) {
	if len(cc.List) != 1 {
		return row, "case lists several types"
	}
	tyS := trlib.ExprString(cc.List[0])
	ty, ok := goTypeCtor[tyS]
	if !ok {
		return row, "unfamiliar type " + tyS
	}
	row.Ty = ty
	if len(cc.Body) != 1 {
		return row, "unfamiliar body"
	}
	tagOf := func(e ast.Expr) (int, bool) {
		if fn, args, ok := call(e); ok && fn == "WriteOctet" && len(args) == 2 && identName(args[0]) == "writer" {
			return charLit(args[1])
		}
		if x, ok := isBinaryWrite(e); ok {
			return charLit(x)
		}
		return 0, false
	}
	if as, ok := cc.Body[0].(*ast.AssignStmt); ok {
		// nil: err = binary.Write(writer, binary.BigEndian, byte('V'))
		if len(as.Lhs) == 1 && identName(as.Lhs[0]) == "err" && len(as.Rhs) == 1 {
			if t, ok := tagOf(as.Rhs[0]); ok && tyS == "nil" {
				row.Tag, row.Wire = t, "WNothing"
				return row, ""
			}
		}
		return row, "unfamiliar assignment"
	}
	is, ok := cc.Body[0].(*ast.IfStmt)
	if !ok || is.Init == nil || is.Else != nil || len(is.Body.List) != 1 {
		return row, "unfamiliar statement"
	}
	ias, ok := is.Init.(*ast.AssignStmt)
	if !ok || len(ias.Lhs) != 1 || identName(ias.Lhs[0]) != "err" || len(ias.Rhs) != 1 {
		return row, "unfamiliar if-init"
	}
	t, ok := tagOf(ias.Rhs[0])
	if !ok {
		return row, "tag write not recognised"
	}
	row.Tag = t
	be, ok := is.Cond.(*ast.BinaryExpr)
	if !ok || identName(be.X) != "err" || identName(be.Y) != "nil" {
		return row, "unfamiliar condition"
	}
	switch be.Op {
	case token.EQL:
	case token.NEQ:
		row.Inverted = true
	default:
		return row, "unfamiliar comparison"
	}
	assignedErr := func(s ast.Stmt) (ast.Expr, bool) {
		as, ok := s.(*ast.AssignStmt)
		if !ok || len(as.Lhs) != 1 || identName(as.Lhs[0]) != "err" || len(as.Rhs) != 1 || as.Tok != token.ASSIGN {
			return nil, false
		}
		return as.Rhs[0], true
	}
	widthOfArg := func(x ast.Expr) int {
		if identName(x) == "value" {
			return goTypeWidth[tyS]
		}
		if fn, args, ok := call(x); ok && len(args) == 1 && identName(args[0]) == "value" {
			return goTypeWidth[fn]
		}
		return 0
	}
	inner := is.Body.List[0]
	if rhs, ok := assignedErr(inner); ok {
		if x, ok := isBinaryWrite(rhs); ok {
			if w := widthOfArg(x); w > 0 {
				row.Wire = fmt.Sprintf("WFixed %d", w)
				return row, ""
			}
			return row, "unfamiliar binary.Write argument " + trlib.ExprString(x)
		}
		fn, args, ok := call(rhs)
		if !ok || len(args) < 2 || identName(args[0]) != "writer" {
			return row, "unfamiliar payload write"
		}
		a1 := trlib.ExprString(args[1])
		switch {
		case fn == "WriteShortstr" && a1 == "value" && tyS == "string":
			row.Wire = "WShortstr"
		case fn == "WriteLongstr" && ((a1 == "value" && tyS == "[]byte") || (a1 == "[]byte(value)" && tyS == "string")):
			row.Wire = "WLongstr"
		case fn == "WriteTimestamp" && a1 == "value" && tyS == "time.Time":
			row.Wire = "WTimestamp"
		case fn == "writeArray" && a1 == "value" && len(args) == 3 && protoCtor[identName(args[2])] != "" && tyS == "[]interface{}":
			row.Wire = "WArray " + protoCtor[identName(args[2])]
		case fn == "WriteTable" && len(args) == 3 && protoCtor[identName(args[2])] != "" &&
			((a1 == "&value" && tyS == "Table") || (a1 == "value" && tyS == "*Table")):
			row.Wire = "WTable " + protoCtor[identName(args[2])]
		default:
			return row, "unfamiliar payload write " + trlib.ExprString(rhs)
		}
		return row, ""
	}
	if iis, ok := inner.(*ast.IfStmt); ok {
		// bool: if value { err = binary.Write(.., uint8(1)) } else { err = binary.Write(.., uint8(0)) }
		if identName(iis.Cond) == "value" && iis.Init == nil && tyS == "bool" && len(iis.Body.List) == 1 {
			eb, ok := iis.Else.(*ast.BlockStmt)
			if ok && len(eb.List) == 1 {
				r1, ok1 := assignedErr(iis.Body.List[0])
				r0, ok0 := assignedErr(eb.List[0])
				if ok1 && ok0 {
					x1, ok1 := isBinaryWrite(r1)
					x0, ok0 := isBinaryWrite(r0)
					if ok1 && ok0 && trlib.ExprString(x1) == "uint8(1)" && trlib.ExprString(x0) == "uint8(0)" {
						row.Wire = "WBoolOctet"
						return row, ""
					}
				}
			}
			return row, "unfamiliar bool payload"
		}
		// Decimal: if err = binary.Write(.., byte(value.Scale)); err == nil { err = binary.Write(.., uint32(value.Value)) }
		if iis.Init != nil && tyS == "Decimal" && iis.Else == nil && len(iis.Body.List) == 1 {
			r1, ok1 := assignedErr(iis.Init)
			r2, ok2 := assignedErr(iis.Body.List[0])
			ibe, okc := iis.Cond.(*ast.BinaryExpr)
			if ok1 && ok2 && okc && ibe.Op == token.EQL && identName(ibe.X) == "err" && identName(ibe.Y) == "nil" {
				x1, ok1 := isBinaryWrite(r1)
				x2, ok2 := isBinaryWrite(r2)
				if ok1 && ok2 && trlib.ExprString(x1) == "byte(value.Scale)" && trlib.ExprString(x2) == "uint32(value.Value)" {
					row.Wire = "WDecimal"
					return row, ""
				}
			}
			return row, "unfamiliar decimal payload"
		}
	}
	return row, "unfamiliar payload statement"
}

func parseWriter(f *ast.File, name string) (rows []writerRow, problems []string) {
	fd := trlib.FuncDecl(f, name)
	if fd == nil || fd.Body == nil {
		return nil, []string{name + " not found"}
	}
	var sw *ast.TypeSwitchStmt
	for _, st := range fd.Body.List {
		if s, ok := st.(*ast.TypeSwitchStmt); ok {
			sw = s
		}
	}
	if sw == nil {
		return nil, []string{name + ": no type switch"}
	}
	for _, c := range sw.Body.List {
		cc := c.(*ast.CaseClause)
		if cc.List == nil { // default: must set an error
			okDefault := false
			if len(cc.Body) == 1 {
				if as, ok := cc.Body[0].(*ast.AssignStmt); ok && len(as.Lhs) == 1 && identName(as.Lhs[0]) == "err" {
					if fn, _, ok := call(as.Rhs[0]); ok && fn == "fmt.Errorf" {
						okDefault = true
					}
				}
			}
			if !okDefault {
				problems = append(problems, name+": default case does not set an error")
			}
			continue
		}
		row, why := parseWriterCase(cc)
		if why != "" {
			problems = append(problems, fmt.Sprintf("%s case %s: %s", name, trlib.ExprString(cc.List[0]), why))
			continue
		}
		rows = append(rows, row)
	}
	return
}

// allocShape classifies how fn sizes the buffer it reads a wire length into.
//
//	"wire"        make([]byte, <length read from the wire>)            (unbounded up-front allocation)
//	"wire+1/u32"  make([]byte, <uint32 length>+1)                      (also wraps to 0 at 0xFFFFFFFF)
//	"chunked:N"   readBytes(r, ...) with an up-front allocation of at most N
func allocShape(f *ast.File, fn string) (string, string) {
	fd := trlib.FuncDecl(f, fn)
	if fd == nil || fd.Body == nil {
		return "", fn + " not found"
	}
	shape, why := "", ""
	ast.Inspect(fd.Body, func(n ast.Node) bool {
		ce, ok := n.(*ast.CallExpr)
		if !ok {
			return true
		}
		name := identName(ce.Fun)
		if name == "make" && len(ce.Args) == 2 && trlib.ExprString(ce.Args[0]) == "[]byte" {
			switch a := ce.Args[1].(type) {
			case *ast.Ident:
				shape = "wire"
			case *ast.BinaryExpr:
				if a.Op == token.ADD && identName(a.X) != "" && trlib.ExprString(a.Y) == "1" {
					shape = "wire+1/u32"
				} else {
					why = fn + ": unfamiliar make size " + trlib.ExprString(a)
				}
			default:
				why = fn + ": unfamiliar make size " + trlib.ExprString(ce.Args[1])
			}
		}
		if name == "readBytes" {
			capv, w := readBytesCap(f)
			if w != "" {
				why = w
			} else {
				// the length argument must be widened before any arithmetic: uint64(x) or uint64(x)+1
				arg := trlib.ExprString(ce.Args[len(ce.Args)-1])
				if strings.HasPrefix(arg, "uint64(") {
					shape = "chunked:" + capv
				} else {
					why = fn + ": readBytes length argument " + arg + " is not widened to uint64 first"
				}
			}
		}
		return true
	})
	if shape == "" && why == "" {
		why = fn + ": no allocation site recognised"
	}
	return shape, why
}

// readBytesCap recognises
//
//	func readBytes(r io.Reader, n uint64) ([]byte, error) { if n <= maxPrealloc { make([]byte, n) ... } ... io.CopyN ... }
func readBytesCap(f *ast.File) (string, string) {
	fd := trlib.FuncDecl(f, "readBytes")
	if fd == nil || fd.Body == nil {
		return "", "readBytes not found"
	}
	capName := ""
	guarded := true
	ast.Inspect(fd.Body, func(n ast.Node) bool {
		switch s := n.(type) {
		case *ast.IfStmt:
			if be, ok := s.Cond.(*ast.BinaryExpr); ok && be.Op == token.LEQ && identName(be.X) == "n" {
				capName = trlib.ExprString(be.Y)
				return false // the make inside this guard is bounded
			}
		case *ast.CallExpr:
			if identName(s.Fun) == "make" {
				guarded = false // an allocation outside the guard
			}
		}
		return true
	})
	if capName == "" || !guarded {
		return "", "readBytes: no `if n <= <cap>` guard around its only make"
	}
	if _, err := strconv.ParseUint(capName, 0, 64); err == nil {
		return capName, ""
	}
	// a named constant
	for _, d := range f.Decls {
		gd, ok := d.(*ast.GenDecl)
		if !ok || gd.Tok != token.CONST {
			continue
		}
		for _, sp := range gd.Specs {
			vs := sp.(*ast.ValueSpec)
			for i, n := range vs.Names {
				if n.Name == capName && i < len(vs.Values) {
					if v, ok := constInt(vs.Values[i]); ok {
						return fmt.Sprint(v), ""
					}
				}
			}
		}
	}
	return "", "readBytes: cap " + capName + " is not a literal constant"
}

func constInt(e ast.Expr) (uint64, bool) {
	switch v := e.(type) {
	case *ast.BasicLit:
		n, err := strconv.ParseUint(v.Value, 0, 64)
		return n, err == nil
	case *ast.ParenExpr:
		return constInt(v.X)
	case *ast.BinaryExpr:
		a, ok1 := constInt(v.X)
		b, ok2 := constInt(v.Y)
		if !ok1 || !ok2 {
			return 0, false
		}
		switch v.Op {
		case token.SHL:
			return a << b, true
		case token.MUL:
			return a * b, true
		case token.ADD:
			return a + b, true
		}
	}
	return 0, false
}

func genTags(c *trlib.Ctx) error {
	var sb strings.Builder
	sb.WriteString("(* GENERATED by /verif/translator/cmd/codec from /repo/" + rwSrc + ". Do not edit. *)\n")
	sb.WriteString(genHeader)
	f, err := c.Parse(rwSrc)
	if err != nil {
		c.Unrec(tagsRel, "parse error: "+err.Error())
		sb.WriteString("Definition reader_091 : list reader_row := [].\nDefinition reader_rabbit : list reader_row := [].\n")
		sb.WriteString("Definition writer_091 : list writer_row := [].\nDefinition writer_rabbit : list writer_row := [].\n")
		sb.WriteString("Definition longstr_alloc : alloc_style := AllocChunked 0.\nDefinition frame_alloc : frame_alloc_style := FrameChunked 0.\n")
		return c.Write(tagsRel, sb.String())
	}
	var problems []string
	emitR := func(name, fn string) {
		rows, p := parseReader(f, fn)
		problems = append(problems, p...)
		parts := make([]string, len(rows))
		for i, r := range rows {
			parts[i] = fmt.Sprintf("{| rr_tag := %d (* %q *); rr_wire := %s; rr_type := %s; rr_inverted := %s |}", r.Tag, rune(r.Tag), r.Wire, r.Ty, trlib.CoqBool(r.Inverted))
		}
		sb.WriteString("Definition " + name + " : list reader_row := [\n  " + strings.Join(parts, ";\n  ") + "].\n\n")
	}
	emitW := func(name, fn string) {
		rows, p := parseWriter(f, fn)
		problems = append(problems, p...)
		parts := make([]string, len(rows))
		for i, r := range rows {
			parts[i] = fmt.Sprintf("{| wr_type := %s; wr_tag := %d (* %q *); wr_wire := %s; wr_inverted := %s |}", r.Ty, r.Tag, rune(r.Tag), r.Wire, trlib.CoqBool(r.Inverted))
		}
		sb.WriteString("Definition " + name + " : list writer_row := [\n  " + strings.Join(parts, ";\n  ") + "].\n\n")
	}
	emitR("reader_091", "readValue091")
	emitR("reader_rabbit", "readValueRabbit")
	emitW("writer_091", "writeValue091")
	emitW("writer_rabbit", "writeValueRabbit")

	ls, why := allocShape(f, "ReadLongstr")
	if why != "" {
		problems = append(problems, why)
	}
	switch {
	case ls == "wire":
		sb.WriteString("Definition longstr_alloc : alloc_style := AllocWire.\n")
	case strings.HasPrefix(ls, "chunked:"):
		sb.WriteString("Definition longstr_alloc : alloc_style := AllocChunked " + ls[8:] + ".\n")
	default:
		problems = append(problems, "ReadLongstr: allocation shape "+ls)
		sb.WriteString("Definition longstr_alloc : alloc_style := AllocChunked 0.\n")
	}
	fs, why := allocShape(f, "ReadFrame")
	if why != "" {
		problems = append(problems, why)
	}
	switch {
	case fs == "wire+1/u32":
		sb.WriteString("Definition frame_alloc : frame_alloc_style := FrameWirePlus1Wrap32.\n")
	case strings.HasPrefix(fs, "chunked:"):
		sb.WriteString("Definition frame_alloc : frame_alloc_style := FrameChunked " + fs[8:] + ".\n")
	default:
		problems = append(problems, "ReadFrame: allocation shape "+fs)
		sb.WriteString("Definition frame_alloc : frame_alloc_style := FrameChunked 0.\n")
	}

	// hand-modelled functions: their shapes are recorded so that the evidence says when one changed
	c.RecordShapes(rwSrc, f, "ReadFrame", "WriteFrame", "ReadOctet", "WriteOctet", "ReadShort", "WriteShort", "ReadLong", "WriteLong",
		"ReadLonglong", "WriteLonglong", "ReadTimestamp", "WriteTimestamp", "ReadShortstr", "WriteShortstr", "ReadLongstr", "WriteLongstr",
		"ReadTable", "WriteTable", "readV", "writeV", "readArray", "writeArray", "ReadContentHeader", "WriteContentHeader")
	for _, x := range [][2]string{{"amqp/types.go", "Message.Marshal"}, {"amqp/types.go", "Message.Unmarshal"}, {"amqp/types.go", "Message.Append"},
		{"queue/queue.go", "Queue.Marshal"}, {"queue/queue.go", "Queue.Unmarshal"},
		{"exchange/exchange.go", "Exchange.Marshal"}, {"exchange/exchange.go", "Exchange.Unmarshal"},
		{"binding/binding.go", "Binding.Marshal"}, {"binding/binding.go", "Binding.Unmarshal"}} {
		if g, err := c.Parse(x[0]); err == nil {
			c.RecordShapes(x[0], g, x[1])
		} else {
			c.Shapes[x[0]+":"+x[1]] = "parse error"
		}
	}
	if len(problems) > 0 {
		c.Unrec(tagsRel, strings.Join(problems, " | "))
	} else {
		c.Ok(tagsRel)
	}
	return c.Write(tagsRel, sb.String())
}
