"""Shared machinery of the store checks (C09, C04, C17 isolation half): case lines of
harness/cmd/stores <-> Coq terms of Run/StoresRun.v, model evaluation, the executable property
statements (the judges: plain python over the implementation's trace, no model involved),
trigger predicates of the known findings, shrinking."""
import os, re, shutil, struct
import vlib
from vlib import log

TRANSLATOR = "stores"
GEN_FILES = ["Store/gen/KeyFmtGen.v", "Store/gen/OptsGen.v"]
RUNNER = "Run/StoresRun.v"


# ------------------------------------------------------------------ small helpers
def unhex(h):
    return bytes.fromhex(h)


def coq_bytes(h):
    b = unhex(h)
    return "[" + "; ".join(str(x) for x in b) + "]"


def cb(x):
    return "true" if x in ("1", 1, True) else "false"


def translator_status():
    tr = vlib.run_translator(TRANSLATOR)
    st = {f: tr["files"].get(f, {"status": "missing"}) for f in GEN_FILES}
    return st, tr["shapes"]


def build():
    exe, err = vlib.build_harness("stores")
    if exe is None:
        raise vlib.Infra("harness cmd/stores does not build against /repo (is the tree compilable?):\n" + err)
    return exe


def run_harness(exe, mode, engine, lines=None, gen=None, work=None, timeout=600):
    """mode: 'srv' | 'msg'. lines: list of input lines for *-batch; gen: dict(seed,n,len,safe,iso) for *-run."""
    args = []
    if gen is not None:
        args = [mode + "-run", "-engine", engine, "-seed", str(gen["seed"]), "-n", str(gen["n"]), "-len", str(gen["len"])]
        if gen.get("safe"):
            args.append("-safe")
        if gen.get("iso"):
            args.append("-iso")
    else:
        args = [mode + "-batch", "-engine", engine]
    if engine != "rec":
        args += ["-work", work]
    out = vlib.harness(exe, args, timeout=timeout, input=("\n".join(lines) + "\n") if lines is not None else None)
    return [l for l in out.splitlines() if l.strip()]


# ------------------------------------------------------------------ parsing
class Case:
    def __init__(self, mode, line):
        self.mode, self.line = mode, line
        f = line.split("|")
        if mode == "srv":
            self.engine, ops, outs = f[0], f[1], f[2]
            self.confirm = None
        else:
            self.engine, self.confirm, ops, outs = f[0], f[1], f[2], f[3]
        self.ops = ops.split()
        self.outs = outs.split()
        if len(self.ops) != len(self.outs):
            raise vlib.Infra("harness line has %d ops and %d outputs: %s" % (len(self.ops), len(self.outs), line[:300]))

    def input_line(self, ops=None):
        ops = self.ops if ops is None else ops
        return " ".join(ops) if self.mode == "srv" else "%s|%s" % (self.confirm, " ".join(ops))


def atoms_of_out(out):
    """-> list of (tag, [hex...], [int...])"""
    if out in ("_", "ERR", "BAD"):
        return []
    res = []
    for a in out.split(","):
        f = a.split(":")
        t = f[0]
        if a == "PANIC":
            res.append((7, [], []))
        elif t == "s":
            res.append((1, [f[1]], [int(f[2]), int(f[3])]))
        elif t == "d":
            res.append((2, [f[1]], []))
        elif t == "r":
            res.append((3, [f[1]], [int(f[2])]))
        elif t == "m":
            res.append((4, [], [int(f[1]), int(f[2])]))
        elif t == "n":
            res.append((5, [], [int(f[1])]))
        elif t == "l":
            res.append((6, [], [int(f[1])]))
        elif t == "k":
            res.append((8, [f[1]], [int(f[2]), int(f[3])]))
        elif t == "p":
            res.append((9, [f[1]], [int(f[2])]))
        elif t == "q":
            res.append((20, [f[1]], [int(f[2]), int(f[3]), int(f[4]), int(f[5])]))
        elif t == "e":
            res.append((21, [f[1]], [int(x) for x in f[2:7]]))
        elif t == "b":
            res.append((22, [f[1], f[2], f[3], f[4]], [int(f[5]), int(f[6])]))
        elif t == "v":
            res.append((23, [f[1]], [int(f[2])]))
        elif t == "kv":
            res.append((24, [f[1], f[2]], []))
        else:
            raise vlib.Infra("unknown output atom %r" % a)
    return res


def coq_atoms(out):
    return "[" + "; ".join("(%d, [%s], [%s])" % (t, "; ".join(coq_bytes(h) for h in bs), "; ".join(str(n) for n in ns))
                           for t, bs, ns in atoms_of_out(out)) + "]"


def coq_msg(f, idx):
    """every A/U/D op of the harness builds a fresh message with its own ConfirmMeta object, ExpectedConfirms = 1"""
    ctag = "None" if f[3] == "-" else "Some %s" % f[3]
    return "{| m_id := %s; m_data := %s; m_ctag := %s; m_meta := %d; m_expected := 1 |}" % (f[1], f[2], ctag, idx)


def coq_msg_op(op, idx=0):
    f = op.split(":")
    t = f[0]
    if t in ("A", "U", "D"):
        return "RL (%s %s %s)" % ({"A": "MAdd", "U": "MUpdate", "D": "MDel"}[t], coq_msg(f, idx), coq_bytes(f[4]))
    if t == "P":
        return "RL (MPurge %s)" % coq_bytes(f[1])
    if t == "F":
        return "RL (MIterFrom %s %s %s)" % (coq_bytes(f[1]), f[2], f[3])
    if t == "I":
        return "RL (MIterate %s %s)" % (coq_bytes(f[1]), f[2])
    if t == "L":
        return "RL (MLength %s)" % coq_bytes(f[1])
    if t == "R":
        return "RL (MRecover %s %s)" % (coq_bytes(f[1]), f[2])
    return {"S": "RL MPersistSwap", "B": "RL MPersistBatch", "C": "RL MPersistConfirm", "T": "RL MPersistTick",
            "K": "RL MKill", "X": "RL MClose", "DUMP": "RDump", "PEND": "RPend"}[t]


def coq_srv_op(op):
    f = op.split(":")
    t = f[0]
    if t == "AV":
        return "SL (SAddVhost %s %s)" % (coq_bytes(f[1]), cb(f[2]))
    if t in ("AE", "DE"):
        typ, fl = (f[3], f[4]) if t == "AE" else ("0", "0000")
        rec = "{| ex_name := %s; ex_type := %s; ex_durable := %s; ex_autodelete := %s; ex_internal := %s; ex_system := %s |}" % (
            coq_bytes(f[2]), typ, cb(fl[0]), cb(fl[1]), cb(fl[2]), cb(fl[3]))
        return "SL (%s %s %s)" % ("SAddExchange" if t == "AE" else "SDelExchange", coq_bytes(f[1]), rec)
    if t in ("AQ", "DQ"):
        conn, fl = (f[3], f[4]) if t == "AQ" else ("0", "000")
        rec = "{| qu_name := %s; qu_conn_id := %s; qu_exclusive := %s; qu_autodelete := %s; qu_durable := %s |}" % (
            coq_bytes(f[2]), conn, cb(fl[0]), cb(fl[1]), cb(fl[2]))
        return "SL (%s %s %s)" % ("SAddQueue" if t == "AQ" else "SDelQueue", coq_bytes(f[1]), rec)
    if t in ("AB", "DB"):
        args, topic, anyf = (f[7], f[6], f[8]) if t == "AB" else ("", "0", "0")
        rec = "{| bd_queue := %s; bd_exchange := %s; bd_key := %s; bd_args := %s; bd_topic := %s; bd_match_any := %s |}" % (
            coq_bytes(f[2]), coq_bytes(f[3]), coq_bytes(f[4]), coq_bytes(args), cb(topic), cb(anyf))
        return "SL (%s %s %s)" % ("SAddBinding" if t == "AB" else "SDelBinding", coq_bytes(f[1]), rec)
    if t == "K":
        return "SL SKill"
    if t == "GV":
        return "SGetV"
    if t in ("GQ", "GE", "GB"):
        return "%s %s" % ({"GQ": "SGetQ", "GE": "SGetE", "GB": "SGetB"}[t], coq_bytes(f[1]))
    if t == "DUMP":
        return "SDump"
    raise vlib.Infra("unknown srv op %r" % op)


HEADER = ("From Coq Require Import List NArith.\nImport ListNotations.\n"
          "From GMQ Require Import Store.KeyFmt Store.KV Store.SrvStore Store.MsgStore Run.StoresRun.\nOpen Scope N_scope.\n")


def coq_case(c):
    outs = "[" + "; ".join(coq_atoms(o) for o in c.outs) + "]"
    if c.mode == "srv":
        return "([%s], %s)" % ("; ".join(coq_srv_op(o) for o in c.ops), outs)
    eng = "Bunt" if c.engine == "bunt" else "Badger"
    return "(%s, %s, [%s], %s)" % (eng, cb(c.confirm), "; ".join(coq_msg_op(o, i) for i, o in enumerate(c.ops)), outs)


def model_mismatches(cases, tag, chunk=150):
    """indices of the cases on which the Coq model's outputs differ from the implementation's"""
    bad = []
    for s in range(0, len(cases), chunk):
        part = cases[s:s + chunk]
        if not part:
            continue
        mode = part[0].mode
        typ, fn = ("srv_case", "srv_mismatches") if mode == "srv" else ("ms_case", "ms_mismatches")
        text = HEADER + "Definition cases : list %s := [\n%s\n].\nDefinition M := Eval vm_compute in %s cases.\nPrint M.\n" % (
            typ, ";\n".join(coq_case(c) for c in part), fn)
        out = vlib.coq_eval(tag, text)
        for m in vlib.parse_coq_list(out, "M"):
            bad.append(s + int(m.replace('%nat', '').strip()))
    return bad


def model_outputs_text(c, tag):
    fn = "srv_model_outs" if c.mode == "srv" else "ms_model_outs"
    text = HEADER + "Definition c := %s.\nEval vm_compute in %s c.\n" % (coq_case(c), fn)
    try:
        return vlib.coq_eval(tag, text)[-4000:]
    except vlib.Infra as e:
        return "model evaluation failed: %s" % e


# ------------------------------------------------------------------ trigger predicates of the known findings
DOT, US = b".", b"_"


def f21_queue_pair(q, q2):
    """F21 trigger for two queue names (bytes): the scan prefix of one is a prefix of the other's"""
    return q != q2 and ((q2 + DOT).startswith(q + DOT) or (q + DOT).startswith(q2 + DOT))


def doc_msg_key(q, mid):
    """the documented key format msg.<queue>.<id> (id printed as a signed 64-bit decimal)"""
    mid %= 1 << 64
    if mid >= 1 << 63:
        mid -= 1 << 64
    return b"msg." + q + b"." + str(mid).encode()


# ------------------------------------------------------------------ C09 judge: topology round trip
def judge_srv(c):
    """Executable statement of C09 at the store API: at every Get*, the store returns exactly the
    entities added and not deleted, with the fields they were declared with.
    Returns list of dict(pos, what, triggers) - triggers = names of known-finding triggers present
    in the part of the case the failing observation depends on (empty = a new violation)."""
    vhosts, exch, queues, binds = {}, {}, {}, {}
    fails = []
    for i, (op, out) in enumerate(zip(c.ops, c.outs)):
        f = op.split(":")
        t = f[0]
        if out == "PANIC":
            fails.append(dict(pos=i, what="%s panicked" % op, triggers=trig_names([unhex(x) for x in f[1:2]], [], [])))
            continue
        if t == "AV":
            vhosts[unhex(f[1])] = int(f[2])
        elif t == "AE":
            exch[(unhex(f[1]), unhex(f[2]))] = (int(f[3]),) + tuple(int(x) for x in f[4])
        elif t == "DE":
            exch.pop((unhex(f[1]), unhex(f[2])), None)
        elif t == "AQ":
            fl = f[4]
            queues[(unhex(f[1]), unhex(f[2]))] = (int(fl[1]), int(fl[2]), int(fl[0]), int(f[3]))  # autodel durable excl conn
        elif t == "DQ":
            queues.pop((unhex(f[1]), unhex(f[2])), None)
        elif t == "AB":
            binds.setdefault((unhex(f[1]), unhex(f[2]), unhex(f[3]), unhex(f[4])), {})[f[7]] = (int(f[6]), int(f[8]))
        elif t == "DB":
            binds.pop((unhex(f[1]), unhex(f[2]), unhex(f[3]), unhex(f[4])), None)
        elif t in ("GV", "GQ", "GE", "GB"):
            got = sorted(atoms_of_out(out))
            if t == "GV":
                want = sorted((23, [v.hex()], [s]) for v, s in vhosts.items())
                vs = list(vhosts)
            else:
                v = unhex(f[1])
                vs = [v] + [k[0] for d in (exch, queues, binds) for k in d]
                if t == "GQ":
                    want = sorted((20, [n.hex()], list(r)) for (vh, n), r in queues.items() if vh == v)
                elif t == "GE":
                    want = sorted((21, [n.hex()], list(r)) for (vh, n), r in exch.items() if vh == v)
                else:
                    want = sorted((22, [q.hex(), e.hex(), k.hex(), a], list(r)) for (vh, q, e, k), d in binds.items() if vh == v
                                  for a, r in d.items())
            if got != want:
                tr = trig_names(vs, list(binds.items()), (exch, queues) if t != "GB" else None, kind=t)
                fails.append(dict(pos=i, what="%s returned %s, declared and not deleted: %s" % (op, show_atoms(got), show_atoms(want)),
                                  triggers=tr))
    return fails


def show_atoms(l):
    def one(a):
        t, bs, ns = a
        return "%s(%s%s)" % ({20: "queue", 21: "exchange", 22: "binding", 23: "vhost"}.get(t, str(t)),
                             ",".join(repr(unhex(b).decode("latin1")) for b in bs), "".join(",%d" % n for n in ns))
    return "[" + " ".join(one(a) for a in l) + "]"


def trig_names(vhosts, bind_items, flagged, kind=None):
    tr = set()
    if any(DOT in v for v in vhosts):
        tr.add("F21-vhost-with-dot")
    for (v, q, e, k), d in bind_items:
        if kind in (None, "GB"):
            if US in q or US in e:
                tr.add("F21-binding-name-underscore")
            if len(d) > 1:
                tr.add("F21-binding-key-ignores-arguments")
            if any(r[1] for r in d.values()):
                tr.add("F22-binding-x-match-any")
    if flagged:
        exch, queues = flagged
        if kind in (None, "GE") and any(r[1:] != (1, 0, 0, 0) for r in exch.values()):
            tr.add("F22-exchange-flags")
        if kind in (None, "GQ") and any(r[1:] != (1, 0, 0) for r in queues.values()):
            tr.add("F22-queue-owner-flags")
    return sorted(tr)


# ------------------------------------------------------------------ C04 / C05 / C17 judges on msgstorage traces
def msg_case_names(c):
    names = []
    for op in c.ops:
        f = op.split(":")
        q = None
        if f[0] in ("A", "U", "D"):
            q = f[4]
        elif f[0] in ("P", "F", "I", "L", "R"):
            q = f[1]
        if q is not None and unhex(q) not in names:
            names.append(unhex(q))
    return names


def judge_msg(c):
    """Executable statements, over the implementation's trace only:
    purged    : a copy added before a purge of its queue and not added since is not recovered afterwards
    durable   : a relayed (storage-confirmed) copy (q,id) for which no Del was requested and whose queue was not
                purged since its first Add is in the engine at every later DUMP and in every later R:q:0
    order     : R:q:0 lists ids in increasing order when all of q's ids have the same decimal length (< 2^63)
    phantom   : everything R:q returns was Added/Updated for q with that content
    deleted   : a copy whose Del was requested before a persist that completed, and that was not added again, is not in the engine
    confirmed : every add with a confirm tag that a completed persist took in its snapshot is relayed by it
    length    : GetQueueLength(q) = number of q's messages in the engine (judged right after a DUMP)
    from      : IterateByQueueFromMsgID(q, id) from a stored id lists that id first (judged right after a DUMP)
    not-early : a relay of key k is preceded by a completed batch that Sets k, or k was Added and Del-requested before the
                snapshot of this or an earlier persist (the add was cancelled: the message was already settled) (C05 store clause)
    Returns list of dict(pos, clause, what, triggers)."""
    fails = []
    names = msg_case_names(c)
    first_add, written, del_req, purged_after, relayed, set_done = {}, {}, set(), set(), {}, set()
    pending_w, inflight_w, purged_gone = set(), set(), set()
    del_pending, del_flushed, swapped_dels = set(), set(), set()
    add_count, first_is_add = {}, {}
    pending_a, pending_d, settled_ok = set(), set(), set()
    owed, owed_fly = {}, {}   # adds with a confirm tag waiting for their persist: (q, id) -> key hex
    fresh_dump = None     # engine keys of the last DUMP if nothing has changed the store since
    bunt = c.engine == "bunt"

    def trig(q):
        tr = []
        if any(f21_queue_pair(q, q2) for q2 in names):
            tr.append("F21-queue-scan-prefix")
        if bunt:
            tr.append("F23-buntdb-stubs")
        return tr

    in_window = False     # between S and its C (or a kill): persist holds flushLock, a PurgeQueue cannot happen in here
    for i, (op, out) in enumerate(zip(c.ops, c.outs)):
        f = op.split(":")
        t = f[0]
        atoms = atoms_of_out(out)
        if t == "P" and in_window:
            continue
        if t == "S":
            in_window = True
        elif t in ("C", "K", "X") or out == "PANIC":
            in_window = False
        if t in ("A", "U", "D", "P", "T", "S", "B", "C", "K", "X") or out == "PANIC":
            fresh_dump = None
        if t in ("A", "U"):
            q, mid, data = unhex(f[4]), int(f[1]), int(f[2])
            if t == "A":
                add_count[(q, mid)] = add_count.get((q, mid), 0) + 1
            first_is_add.setdefault((q, mid), t == "A")
            first_add.setdefault((q, mid), i)
            written.setdefault((q, mid), set()).add(data)
            pending_w.add((q, mid))
            if t == "A":
                pending_a.add((q, mid))
                if c.confirm == "1" and f[3] != "-" and int(f[3]) > 0:
                    owed[(q, mid)] = doc_msg_key(q, mid).hex()
                else:
                    owed.pop((q, mid), None)
            purged_gone.discard((q, mid))
            del_pending.discard((q, mid))
            del_flushed.discard((q, mid))
            swapped_dels.discard((q, mid))
        elif t == "D":
            del_req.add((unhex(f[4]), int(f[1])))
            del_pending.add((unhex(f[4]), int(f[1])))
            pending_d.add((unhex(f[4]), int(f[1])))
        elif t == "K" or out == "PANIC":
            owed.clear()
            owed_fly.clear()
            pending_a.clear()
            pending_d.clear()
            del_pending.clear()
            swapped_dels.clear()
            pending_w.clear()
            inflight_w.clear()
        elif t in ("T", "X"):
            # snapshot: adds cancelled by a del of the same key are 'settled' - they may be relayed without a Set
            settled_ok |= {doc_msg_key(*o).hex() for o in pending_a & pending_d}
            pending_a.clear()
            pending_d.clear()
            del_flushed |= del_pending | swapped_dels
            del_pending.clear()
            swapped_dels.clear()
            pending_w.clear()
            inflight_w.clear()
        elif t == "S":
            settled_ok |= {doc_msg_key(*o).hex() for o in pending_a & pending_d}
            pending_a.clear()
            pending_d.clear()
            swapped_dels |= del_pending
            del_pending.clear()
            inflight_w |= pending_w
            pending_w.clear()
        elif t == "B" and out != "PANIC":
            del_flushed |= swapped_dels
            swapped_dels.clear()
            inflight_w.clear()
        elif t == "P":
            q = unhex(f[1])
            for (q2, mid) in first_add:
                if q2 == q:
                    purged_after.add((q2, mid))
                    purged_gone.add((q2, mid))
            # the queue's pending adds are cancelled by a del of the same key (they will be confirmed as settled, never
            # written); its pending updates are dropped
            for o in [o for o in pending_a if o[0] == q]:
                pending_d.add(o)
            for o in [o for o in pending_w if o[0] == q]:
                pending_w.discard(o)
        # confirmed: every add with a confirm tag that a COMPLETED persist took in its snapshot is relayed by that persist
        # (written, or settled because a del / purge cancelled it)
        if t == "S":
            owed_fly = dict(owed)
            owed.clear()
        if (t in ("T", "X") or (t == "C" and owed_fly)) and out != "PANIC":
            due = dict(owed) if t in ("T", "X") else owed_fly
            got = {a[1][0] for a in atoms if a[0] == 3}
            for o, kh in due.items():
                if kh not in got:
                    fails.append(dict(pos=i, clause="confirmed", what="%s completed but did not relay the add of queue=%r id=%d taken in its snapshot (the publisher is never confirmed)" % (op, o[0], o[1]), triggers=[]))
            if t in ("T", "X"):
                owed.clear()
            else:
                owed_fly = {}
        # batches and relays
        for a in atoms:
            if a[0] == 1:
                set_done.add(a[1][0])
            elif a[0] == 3:
                k = a[1][0]
                if k not in set_done and k not in settled_ok:
                    fails.append(dict(pos=i, clause="not-early", what="relay of key %r although no completed batch has set it and its add was not cancelled by a del before the snapshot of this or an earlier persist" % unhex(k), triggers=[]))
                owners = [(q, mid) for (q, mid) in first_add if doc_msg_key(q, mid).hex() == k]
                if not owners:
                    fails.append(dict(pos=i, clause="phantom", what="relay of key %r which is not msg.<queue>.<id> of any Added copy" % unhex(k), triggers=[]))
                for o in owners:
                    relayed.setdefault(o, i)
        must = [(q, mid) for (q, mid) in relayed if (q, mid) not in del_req and (q, mid) not in purged_after]
        if t == "L" and fresh_dump is not None:
            q = unhex(f[1])
            own = sum(1 for (q2, mid) in first_add if q2 == q and doc_msg_key(q2, mid).hex() in fresh_dump)
            got = [a[2][0] for a in atoms if a[0] == 6]
            if got and got[0] != own:
                fails.append(dict(pos=i, clause="length", what="%s says %d, the engine holds %d messages of %r" % (op, got[0], own, q), triggers=trig(q)))
        if t == "F" and fresh_dump is not None:
            q, mid = unhex(f[1]), int(f[2])
            if mid < (1 << 63) and (q, mid) in first_add and doc_msg_key(q, mid).hex() in fresh_dump:
                ids = [a[2][0] for a in atoms if a[0] == 4]
                if not ids or ids[0] != mid:
                    fails.append(dict(pos=i, clause="from", what="%s starts at a stored id but lists %s (the stored id itself must come first)" % (op, ids), triggers=trig(q)))
        if t == "DUMP":
            keys = {a[1][0] for a in atoms if a[0] == 8}
            fresh_dump = keys
            for (q, mid) in del_flushed:
                # (ids are unique per message in the broker: a copy Added twice, or Updated before it was Added, is outside the statement)
                if doc_msg_key(q, mid).hex() in keys and not bunt and add_count.get((q, mid), 0) <= 1 and first_is_add.get((q, mid)):
                    fails.append(dict(pos=i, clause="deleted", what="copy queue=%r id=%d was Del-requested, a later persist completed, it was not added again, yet its key is in the engine" % (q, mid),
                                      triggers=[]))
            for (q, mid) in must:
                if doc_msg_key(q, mid).hex() not in keys:
                    fails.append(dict(pos=i, clause="durable", what="confirmed copy queue=%r id=%d (relayed at op %d) is not in the engine" % (q, mid, relayed[(q, mid)]),
                                      triggers=[x for x in trig(q) if x != "F23-buntdb-stubs"]))
        if t == "R":
            q, limit = unhex(f[1]), int(f[2])
            got = [(a[2][0], a[2][1]) for a in atoms if a[0] == 4]
            ids = [g[0] for g in got]
            if limit == 0:
                for (q2, mid) in must:
                    if q2 == q and mid not in ids and mid < (1 << 63):
                        fails.append(dict(pos=i, clause="durable", what="confirmed copy queue=%r id=%d is not recovered by %s" % (q, mid, op), triggers=trig(q)))
            qids = [mid for (q2, mid) in first_add if q2 == q]
            if qids and len({len(str(x)) for x in qids}) == 1 and all(x < (1 << 63) for x in qids) and ids != sorted(ids):
                fails.append(dict(pos=i, clause="order", what="%s lists ids %s, not in publication (id) order" % (op, ids), triggers=trig(q)))
            for mid, data in got:
                if (q, mid) in purged_gone and not bunt:
                    fails.append(dict(pos=i, clause="purged", what="%s returns id=%d which was purged from %r and not added since" % (op, mid, q),
                                      triggers=trig(q)))
                if data not in written.get((q, mid), ()):
                    fails.append(dict(pos=i, clause="phantom", what="%s returns id=%d data=%d which was never Added to %r" % (op, mid, data, q), triggers=trig(q)))
    return fails


def judge_isolation(c):
    """C17 isolation at the store: an API call addressed to q leaves what the store holds for every other
    queue q' unchanged (F:q':0:0 listing, engine and pending entries under key msg.q'.<id>).  Needs an -iso case."""
    fails = []
    names = msg_case_names(c)
    views = {}   # name -> last observed (listing)
    dump, pend = None, None
    last_mut = None
    prev = {}

    def own(kh, q):
        k = unhex(kh)
        return any(k == doc_msg_key(q, mid) for mid in ids_of.get(q, ()))
    ids_of = {}
    for op in c.ops:
        f = op.split(":")
        if f[0] in ("A", "U", "D"):
            ids_of.setdefault(unhex(f[4]), set()).add(int(f[1]))
    cur = {"dump": None, "pend": None, "F": {}}
    snap_before = None
    pending_check = None
    for i, (op, out) in enumerate(zip(c.ops, c.outs)):
        f = op.split(":")
        t = f[0]
        atoms = atoms_of_out(out)
        if t in ("A", "U", "D", "P", "K"):
            if pending_check is not None:
                fails += compare_iso(pending_check, cur, names, own)
            snap_before = {"dump": cur["dump"], "pend": cur["pend"], "F": dict(cur["F"])}
            pending_check = (i, op, None if t == "K" else unhex(f[4] if t != "P" else f[1]), snap_before)
            cur = {"dump": None, "pend": None, "F": {}}
        elif t in ("T", "S", "B", "C", "X"):
            if pending_check is not None:
                fails += compare_iso(pending_check, cur, names, own)
            pending_check = None
            cur = {"dump": None, "pend": None, "F": {}}
        elif t == "DUMP":
            cur["dump"] = [a for a in atoms if a[0] == 8]
        elif t == "PEND":
            cur["pend"] = [a for a in atoms if a[0] == 9]
        elif t == "F" and f[2] == "0" and f[3] == "0":
            cur["F"][unhex(f[1])] = atoms
    if pending_check is not None:
        fails += compare_iso(pending_check, cur, names, own)
    return fails


def compare_iso(pc, cur, names, own):
    i, op, q, before = pc
    out = []
    if before["dump"] is None or cur["dump"] is None:
        return out
    for q2 in names:
        if q2 == q:
            continue
        tr = ["F21-queue-scan-prefix"] if (q is not None and f21_queue_pair(q, q2)) or (q is None and any(f21_queue_pair(q2, x) for x in names)) else []
        if q2 in before["F"] and q2 in cur["F"] and before["F"][q2] != cur["F"][q2]:
            out.append(dict(pos=i, clause="isolation", what="%s changed the stored messages of queue %r: %s -> %s" % (op, q2, before["F"][q2], cur["F"][q2]), triggers=tr))
        b = [a for a in before["dump"] if own(a[1][0], q2)]
        a_ = [a for a in cur["dump"] if own(a[1][0], q2)]
        if b != a_:
            out.append(dict(pos=i, clause="isolation", what="%s changed the engine entries of queue %r" % (op, q2), triggers=tr))
        if before["pend"] is not None and cur["pend"] is not None and q is not None:
            b = [a for a in before["pend"] if own(a[1][0], q2)]
            a_ = [a for a in cur["pend"] if own(a[1][0], q2)]
            if b != a_:
                out.append(dict(pos=i, clause="isolation", what="%s changed the pending entries of queue %r" % (op, q2), triggers=tr))
    return out


# ------------------------------------------------------------------ well-formedness of msg op lists (split persist windows)
def msg_ops_wellformed(ops):
    state = 0   # 0 outside, 1 after S, 2 after B
    for op in ops:
        t = op.split(":")[0]
        if state == 0:
            if t in ("B", "C"):
                return False
            if t == "S":
                state = 1
        elif state == 1:
            if t in ("S", "T", "C", "X"):
                return False
            if t == "B":
                state = 2
            elif t == "K":
                state = 0
        else:
            if t in ("S", "T", "B", "X"):
                return False
            if t in ("C", "K"):
                state = 0
    return state == 0


def shrink(ops, fails_fn, wellformed=lambda o: True, budget=400):
    """delta debugging on the op list; fails_fn(ops) -> bool (runs the implementation)"""
    n = 2
    runs = 0
    while len(ops) >= 2 and runs < budget:
        chunk = max(1, len(ops) // n)
        reduced = False
        for i in range(0, len(ops), chunk):
            cand = ops[:i] + ops[i + chunk:]
            if not cand or not wellformed(cand):
                continue
            runs += 1
            if fails_fn(cand):
                ops = cand
                n = max(n - 1, 2)
                reduced = True
                break
        if not reduced:
            if chunk == 1:
                break
            n = min(n * 2, len(ops))
    return ops


def new_fails(fails):
    return [f for f in fails if not f["triggers"]]


# ------------------------------------------------------------------ the msgstorage pipeline shared by C04, C17 (store half), C05 (store clause)
def load_witnesses(path):
    out = []
    if os.path.exists(path):
        for l in open(path):
            l = l.strip()
            if l and not l.startswith("#"):
                out.append(l.split("|"))
    return out


def msg_fails(c, clauses, iso):
    fl = [f for f in judge_msg(c) if f["clause"] in clauses]
    if iso:
        fl += judge_isolation(c)
    return fl


def run_msg_pipeline(res, prop, props_v, checker, clauses, plan, iso=False, corpus_dir=None, tag=None):
    """translator -> proofs -> harness -> witnesses + corpus + generated cases -> model in Coq -> judges -> verdict.
    plan: list of (engine, gen dict).  clauses: which clauses of judge_msg belong to this property."""
    tag = tag or prop
    st, shapes = translator_status()
    res.cov.setdefault("translator", {})
    res.cov["translator"].update({"files": st, "shapes": {k: v for k, v in shapes.items() if k.startswith(("msgstorage/", "storage/"))}})
    pr = vlib.coq_check_props(props_v, runners=[RUNNER])
    res.add_proof(pr, checker)
    if res.tier == "thorough" and pr["ok"]:
        probs = thorough_extras(res, props_v)
        if probs:
            pr["ok"], pr["failed_file"], pr["error"] = False, props_v, "; ".join(probs)
    exe = build()
    work = vlib.workdir(tag)
    try:
        confirmed, wit_cases = {}, []
        for w in load_witnesses(os.path.join(corpus_dir, "witnesses.txt")) if corpus_dir else []:
            fid, trig, eng, confirm, ops = w
            line = run_harness(exe, "msg", eng, lines=["%s|%s" % (confirm, ops)], work=work)[0]
            c = Case("msg", line)
            wit_cases.append(c)
            fl = msg_fails(c, clauses | {"purged"}, iso)
            hit = [f for f in fl if trig in f["triggers"]]
            if hit:
                confirmed.setdefault(fid, []).append("%s (%s): %s" % (trig, eng, hit[0]["what"][:170]))
        for fid, whats in sorted(confirmed.items()):
            res.known_finding(fid, "; ".join(sorted(set(w.split(":")[0] for w in whats))) + " -- e.g. " + whats[0])
        cases = list(wit_cases)
        corpus_lines = [("|".join(l[-2:]), l[-3]) for l in load_witnesses(os.path.join(corpus_dir, "cases.txt"))] if corpus_dir else []
        for inp, eng in corpus_lines:
            cases.append(Case("msg", run_harness(exe, "msg", eng, lines=[inp], work=work)[0]))
        dist, gen_cases = {}, []
        for eng, g in plan:
            lines = run_harness(exe, "msg", eng, gen=g, work=work)
            gen_cases += [Case("msg", l) for l in lines]
            dist["%s-%s%s" % (eng, "safe" if g.get("safe") else "hostile", "-iso" if g.get("iso") else "")] = len(lines)
        cases += gen_cases
        bad = model_mismatches(cases, tag) if pr["runners_ok"] else None
        new, known_hits, nontrivial = [], 0, set()
        for i, c in enumerate(cases):
            fl = msg_fails(c, clauses, iso and "DUMP PEND F:" in c.line)
            nf = new_fails(fl)
            if nf:
                new.append((i, nf))
            known_hits += len(fl) - len(nf)
            # non-trivial: a batch wrote something and a later kill or purge was followed by a recover that listed messages
            if any(o.startswith("s:") or ",s:" in o for o in c.outs) and any(op in ("K",) or op.startswith("P:") for op in c.ops) \
                    and any(op.startswith("R:") and "m:" in o for op, o in zip(c.ops, c.outs)):
                nontrivial.add(c.line)
        res.cov["evaluations"] += len(cases)
        res.cov["distinct_nontrivial"] += len(nontrivial)
        res.cov["rule"] = (res.cov.get("rule", "") + " | " if res.cov.get("rule") else "") + (
            "%s: API-level differential runs of the real msgstorage.MsgStorage (persist driven through the verif hook, split at its two unlocked windows by "
            "callbacks inside ProcessBatch; Kill = drop the object without persist and reopen the engine) over a recording in-memory engine, real badger and real buntdb "
            "against the Coq model Store/MsgStore.v (vm_compute): batches, relays, iteration results, engine key sets and pending maps compared; every trace also judged by the "
            "python statement (clauses %s%s); queue names hostile ('.', '_', '/', empty, prefixes of one another) or separator-free; non-trivial = a batch wrote, a kill or "
            "purge followed, and a later recover listed messages; distinct = distinct case lines" % (tag, sorted(clauses), " + isolation" if iso else ""))
        res.cov.setdefault("generator_distribution", {}).update({tag + ":" + k: v for k, v in dist.items()})
        res.cov["samples"] = (res.cov.get("samples") or []) + [c.line[:400] for c in (gen_cases[:1] + gen_cases[-1:])]
        res.cov["traces_validated_against_impl"] += len(cases) - (len(bad) if bad else 0)
        res.cov["judge_failures_attributed_to_known_findings"] = res.cov.get("judge_failures_attributed_to_known_findings", 0) + known_hits
        res.cov["exhaustive"] = False
        unrec = ["%s (%s)" % (f, s.get("detail", s.get("status"))) for f, s in st.items() if s.get("status") != "ok"]
        if pr["ok"] and bad == [] and not new and not unrec:
            return
        what = []
        if unrec:
            # an unrecognised source shape of a translated function is never a silent fallback: the generated part of the
            # model no longer provably describes the source
            what.append("translator does not recognise the source shape: %s" % "; ".join(unrec)[:600])
        if not pr["ok"]:
            what.append("proof obligation no longer checks: %s: %s" % (pr.get("failed_file"), pr.get("error", "")[:400]))
        if bad:
            what.append("correspondence msgstorage model/implementation differs on %d cases (first: %s)" % (len(bad), cases[bad[0]].line[:300]))
        if bad is None:
            what.append("model runner does not build")
        if not new:
            # directed search: the obligation or the correspondence broke but no trace above fails the statement:
            # many more generated traces (recording engine), judged only (no model involved)
            for k in range(6):
                g = dict(seed=res.seed + 1000 + k, n=1200, len=26 if not iso else 12, safe=(k % 2 == 0), iso=iso)
                extra = [Case("msg", l) for l in run_harness(exe, "msg", "rec", gen=g, work=work)]
                res.cov["evaluations"] += len(extra)
                for c in extra:
                    nf = new_fails(msg_fails(c, clauses, iso))
                    if nf:
                        cases.append(c)
                        new.append((len(cases) - 1, nf))
                        break
                if new:
                    break
        if new:
            i, nf = new[0]
            c = cases[i]
            is_iso = iso and "DUMP PEND F:" in c.line

            def fails(ops):
                l2 = run_harness(exe, "msg", c.engine, lines=["%s|%s" % (c.confirm, " ".join(ops))], work=work)[0]
                return bool(new_fails(msg_fails(Case("msg", l2), clauses, is_iso)))
            ops = shrink(c.ops, fails, wellformed=msg_ops_wellformed, budget=150 if c.engine != "rec" else 400)
            line = run_harness(exe, "msg", c.engine, lines=["%s|%s" % (c.confirm, " ".join(ops))], work=work)[0]
            fl = new_fails(msg_fails(Case("msg", line), clauses, is_iso)) or nf
            res.violation(dict(kind="msg-ops", engine=c.engine, confirm=c.confirm, ops=ops, iso=is_iso, clauses=sorted(clauses), implementation_line=line,
                               failed=["%s: %s" % (f["clause"], f["what"]) for f in fl][:5], broken=what,
                               replay_cmd="harness/bin/stores msg-batch -engine %s  <<< '%s|%s'" % (c.engine, c.confirm, " ".join(ops))),
                          True, "msgstorage violates %s: %s" % (fl[0]["clause"], fl[0]["what"][:300]))
        else:
            first = cases[bad[0]] if bad else None
            res.violation(dict(kind="obligation", broken=what, translator=st, smallest_disagreeing_case=first.line if first else None,
                               model_outputs=model_outputs_text(first, tag + "r") if first else None), False, "; ".join(what))
    finally:
        shutil.rmtree(work, ignore_errors=True)


def replay_msg(r):
    exe = build()
    work = vlib.workdir("replay")
    try:
        line = run_harness(exe, "msg", r["engine"], lines=["%s|%s" % (r["confirm"], " ".join(r["ops"]))], work=work)[0]
    finally:
        shutil.rmtree(work, ignore_errors=True)
    print("implementation:", line)
    fl = msg_fails(Case("msg", line), set(r.get("clauses", [])), r.get("iso"))
    for f in fl:
        print("judge:", f["clause"], f["what"], "triggers:", f["triggers"])
    return 1 if new_fails(fl) else 0


def thorough_extras(res, props_v):
    """thorough tier: forbidden-word grep over the cone and coqchk of the property module; returns a list of problems"""
    problems = []
    cone = vlib.coq_cone(props_v)
    import re
    for v in cone:
        pth = os.path.join(vlib.COQ, v)
        if not os.path.exists(pth):
            continue
        for i, line in enumerate(open(pth), 1):
            l = re.sub(r"\(\*.*?\*\)", "", line)
            if vlib.FORBIDDEN.search(l):
                problems.append("forbidden word in %s:%d: %s" % (v, i, line.strip()[:120]))
    mod = "GMQ." + props_v[:-2].replace("/", ".")
    with vlib.Lock("coq"):
        p = vlib.sh(["timeout", "1500", "coqchk", "-silent", "-o", "-Q", ".", "GMQ", mod], cwd=vlib.COQ, timeout=1600)
    out = p.stdout + p.stderr
    res.cov.setdefault("coqchk", {})[props_v] = "ok" if p.returncode == 0 else out[-600:]
    if p.returncode != 0:
        problems.append("coqchk %s failed: %s" % (mod, out[-300:]))
    else:
        m = re.search(r"Axioms:\s*(.*?)\n\s*\n", out, re.S)
        res.cov["coqchk"][props_v + ":axioms"] = (m.group(1).strip() if m else "")[:300]
    return problems
