"""C06 (core) - the prefetch window arithmetic (qos/qos.go) and the window loop of queue.PopQos.

Library for the broker-level C06 check:  run_qos(res) -> dict  (adds violations / known findings to res,
returns its statistics and the proof result; does not touch res.cov unless standalone=True).
Runnable alone:  ./check C06_qos [--tier quick|thorough]   (evidence/C06_qos.json, verdict lines say property=C06).
"""
import json, os, re, sys, time
import vlib
from vlib import log

CHECKER = "make -C /verif/coq Props/C06_qos.vo (full .vo build of the cone) && coqc -Q /verif/coq GMQ Props/C06_qos.v"
W16, W32 = 1 << 16, 1 << 32
CORPUS = os.path.join(vlib.VERIF, "corpus", "C06", "qos.cases")
F32_WITNESS = os.path.join(vlib.VERIF, "corpus", "C06", "F32-size-wrap.case")


# ------------------------------------------------------------------ case lines -> Coq terms
def _w(s):
    return "(%s)" % ", ".join(s.split(","))


def _b(b):
    return {"t": "Some true", "f": "Some false", "_": "None"}[b]


def w_line_to_coq(line):
    kind, init, ops, outs = line.split("|")
    pc, ps = init.split(",")
    def op(o):
        if o[0] in "IDU":
            a, b = o[1:].split(",")
            return {"I": "QInc", "D": "QDec", "U": "QUpdate"}[o[0]] + " %s %s" % (a, b)
        return {"R": "QRelease", "C": "QCopy", "A": "QIsActive"}[o]
    def out(o):
        b, w = o.split(":")
        return "(%s, %s)" % (_b(b), _w(w))
    return "(%s, %s, [%s], [%s])" % (pc, ps, "; ".join(op(o) for o in ops.split()), "; ".join(out(o) for o in outs.split()))


def r_line_to_coq(line):
    kind, init, ops, outs = line.split("|")
    ws = [w for w in init.split(";") if w]
    def op(o):
        return {"P": "RPop", "S": "RSettle"}[o[0]] + " " + o[1:]
    def out(o):
        b, w = o.split(":")
        return "(%s, [%s])" % (_b(b), "; ".join(_w(x) for x in w.split(";") if x))
    return "([%s], [%s], [%s])" % ("; ".join(_w(w) for w in ws), "; ".join(op(o) for o in ops.split()),
                                   "; ".join(out(o) for o in outs.split()))


def broken_line(line):
    o = line.split("|")[3]
    return o.startswith("PANIC") or o.startswith("ERROR")


def eval_cases(lines, tag):
    """-> dict(hand=[idx], gen=[idx], loop=[idx]): indices (into lines) where the model differs from the implementation."""
    bad = dict(hand=[], gen=[], loop=[])
    CH = 1500
    for s in range(0, len(lines), CH):
        wt, wi, rt, ri = [], [], [], []
        for i in range(s, min(s + CH, len(lines))):
            l = lines[i]
            if broken_line(l):
                bad["hand" if l[0] == "W" else "loop"].append(i)
            elif l[0] == "W":
                wt.append(w_line_to_coq(l)); wi.append(i)
            else:
                rt.append(r_line_to_coq(l)); ri.append(i)
        text = ("From Coq Require Import List NArith.\nImport ListNotations.\n"
                "From GMQ Require Import Data.gen.QosGen Data.Qos Run.QosRun.\nOpen Scope N_scope.\n"
                "Definition wcases : list w_case := [\n%s\n].\nDefinition rcases : list r_case := [\n%s\n].\n"
                "Definition MH := Eval vm_compute in w_mismatches_hand wcases.\nPrint MH.\n"
                "Definition MG := Eval vm_compute in w_mismatches_gen wcases.\nPrint MG.\n"
                "Definition MR := Eval vm_compute in r_mismatches rcases.\nPrint MR.\n") % (";\n".join(wt), ";\n".join(rt))
        out = vlib.coq_eval(tag, text)
        bad["hand"] += [wi[int(m.replace("%nat", ""))] for m in vlib.parse_coq_list(out, "MH")]
        bad["gen"] += [wi[int(m.replace("%nat", ""))] for m in vlib.parse_coq_list(out, "MG")]
        bad["loop"] += [ri[int(m.replace("%nat", ""))] for m in vlib.parse_coq_list(out, "MR")]
    return {k: sorted(set(v)) for k, v in bad.items()}


# ------------------------------------------------------------------ the executable statement of the property
# Judges a trace of the IMPLEMENTATION step by step (previous observed state -> observed result), straight from the
# text of C06's window clauses; it does not use the model.  A step whose charge would wrap the uint16/uint32 counters
# is outside the hypothesis (known finding F32) and is only required to leave a refused window unchanged.
def parse_w(s):
    return tuple(int(x) for x in s.split(","))


def admits(w, c, s):
    pc, cc, ps, cs = w
    return (pc == 0 or cc + c <= pc) and (ps == 0 or cs + s <= ps)


def wraps(w, c, s):
    return w[1] + c >= W16 or w[3] + s >= W32


def dec_expected(w, c, s):
    pc, cc, ps, cs = w
    return (pc, cc - c if cc >= c else 0, ps, cs - s if cs >= s else 0)


def judge_window(line):
    """-> None if the implementation trace satisfies the window clauses, else (step index, text)."""
    kind, init, ops, outs = line.split("|")
    if broken_line(line):
        return (0, "harness: " + outs)
    pc, ps = (int(x) for x in init.split(","))
    w = (pc, 0, ps, 0)
    ops, outs = ops.split(), outs.split()
    if len(ops) != len(outs):
        return (0, "output count")
    for i, (o, r) in enumerate(zip(ops, outs)):
        b, ws = r.split(":")
        got = parse_w(ws)
        if o[0] == "I":
            c, s = (int(x) for x in o[1:].split(","))
            if b == "f":
                if got != w:
                    return (i, "refused Inc changed the window: %s -> %s" % (w, got))
            elif not wraps(w, c, s):
                if not admits(w, c, s):
                    return (i, "Inc(%d,%d) admitted beyond the limits of %s" % (c, s, w))
                if got != (w[0], w[1] + c, w[2], w[3] + s):
                    return (i, "Inc(%d,%d) on %s gave %s, not exactly (+%d,+%d)" % (c, s, w, got, c, s))
            if b == "f" and not wraps(w, c, s) and admits(w, c, s):
                return (i, "Inc(%d,%d) refused although the limits of %s admit it" % (c, s, w))
        elif o[0] == "D":
            c, s = (int(x) for x in o[1:].split(","))
            if got != dec_expected(w, c, s):
                return (i, "Dec(%d,%d) on %s gave %s, expected %s" % (c, s, w, got, dec_expected(w, c, s)))
        elif o[0] == "U":
            c, s = (int(x) for x in o[1:].split(","))
            if got != (c, w[1], s, w[3]):
                return (i, "Update(%d,%d) on %s gave %s (current values must be kept)" % (c, s, w, got))
        elif o == "R":
            if got != (w[0], 0, w[2], 0):
                return (i, "Release on %s gave %s" % (w, got))
        elif o == "C":
            if got != w:
                return (i, "Copy of %s is %s" % (w, got))
        elif o == "A":
            if (b == "t") != (w[0] != 0 or w[2] != 0) or got != w:
                return (i, "IsActive on %s said %s (state %s)" % (w, b, got))
        w = got
    return None


def judge_reserve(line):
    kind, init, ops, outs = line.split("|")
    if broken_line(line):
        return (0, "harness: " + outs)
    ws = [parse_w(x) for x in init.split(";") if x]
    ops, outs = ops.split(), outs.split()
    if len(ops) != len(outs):
        return (0, "output count")
    deliv = []   # outstanding deliveries: (size, which windows they charged)
    for i, (o, r) in enumerate(zip(ops, outs)):
        b, wl = r.split(":")
        got = [parse_w(x) for x in wl.split(";") if x]
        size = int(o[1:]) % W32
        if o[0] == "P":
            # every window of the list is charged (a window without limits admits everything); a loop that leaves
            # windows without limits alone would satisfy the window clauses just as well
            active = [(w[0] != 0 or w[2] != 0) for w in ws]
            if not any(wraps(w, 1, size) for w in ws):
                ok = all(admits(w, 1, size) for w in ws)
                if (b == "t") != ok:
                    return (i, "pop %s although the windows %s %s a body of %d" %
                            ("allowed" if b == "t" else "refused", ws, "do not admit" if not ok else "admit", size))
                exp = [(w[0], w[1] + 1, w[2], w[3] + size) for w in ws] if ok else ws
                exp2 = [(w[0], w[1] + 1, w[2], w[3] + size) if a else w for a, w in zip(active, ws)] if ok else ws
                if got != exp and got != exp2:
                    return (i, "%s pop of a body of %d changed the windows %s -> %s, expected %s (all or nothing)" %
                            ("allowed" if ok else "refused", size, ws, got, exp))
            # else: some window would wrap - outside the hypothesis (known finding F32)
        else:
            # "settling a message frees exactly its own share": each window gives back (1, size) if this delivery
            # charged it and is left alone if it did not
            k = next((j for j, d in enumerate(deliv) if d[0] == size), None)
            if k is None:
                exp = [dec_expected(w, 1, size) for w in ws]
            else:
                flags = deliv.pop(k)[1]
                exp = [dec_expected(w, 1, size) if f else w for f, w in zip(flags, ws)]
            if got != exp:
                return (i, "settle of a delivery of %d bytes on %s gave %s, expected %s (every window gives back exactly what this delivery charged)" % (size, ws, got, exp))
        if o[0] == "P" and b == "t":
            deliv.append((size, [g != w for g, w in zip(got, ws)]))
        ws = got
    return None


def judge(line):
    return judge_window(line) if line[0] == "W" else judge_reserve(line)


def replay_line(exe, kind, init, ops):
    return vlib.harness(exe, ["replay", "%s|%s|%s" % (kind, init, " ".join(ops))]).strip()


def shrink(exe, line):
    """Delta-debug the op list while the implementation trace still fails the judge."""
    kind, init, ops, _ = line.split("|")
    ops = ops.split()
    def fails(o):
        return judge(replay_line(exe, kind, init, o)) is not None
    if not fails(ops):
        return line
    n = 2
    while len(ops) >= 2:
        chunk = max(1, len(ops) // n)
        reduced = False
        for i in range(0, len(ops), chunk):
            cand = ops[:i] + ops[i + chunk:]
            if cand and fails(cand):
                ops, n, reduced = cand, max(n - 1, 2), True
                break
        if not reduced:
            if chunk == 1:
                break
            n = min(n * 2, len(ops))
    return replay_line(exe, kind, init, ops)


# ------------------------------------------------------------------ known finding F32
def confirm_f32(exe):
    """Re-run the F32 witness on the real code: a body of 2^32-1 bytes passes a 10-byte size limit that is used up."""
    if not os.path.exists(F32_WITNESS):
        return None
    case = [l.strip() for l in open(F32_WITNESS) if l.strip() and not l.startswith("#")][0]
    kind, init, ops = case.split("|")[:3]
    line = replay_line(exe, kind, init, ops.split())
    if broken_line(line):
        return None
    w = (int(init.split(",")[0]), 0, int(init.split(",")[1]), 0)
    for o, r in zip(line.split("|")[2].split(), line.split("|")[3].split()):
        b, ws = r.split(":")
        if o[0] == "I":
            c, s = (int(x) for x in o[1:].split(","))
            if b == "t" and not admits(w, c, s):
                return "qos.Inc admits a charge beyond the limit when the uint32/uint16 counter wraps: %s (window %s, Inc(%d,%d) succeeded)" % (case, w, c, s)
        w = parse_w(ws)
    return None


# ------------------------------------------------------------------ the check
def nontrivial(line):
    """a case reaches the property's code path non-trivially if some Inc was refused by a limit or a pop was refused"""
    o = line.split("|")[3]
    return "f:" in o


def run_qos(res, standalone=False):
    quick = res.tier == "quick"
    st = {}
    tr = vlib.run_translator("qos")
    gen_status = tr["files"].get("Data/gen/QosGen.v", {})
    st["translator"] = {"Data/gen/QosGen.v": gen_status, "shapes": tr["shapes"]}
    if gen_status.get("status") != "ok":
        res.notes.append("qos translator met a shape it does not recognise (%s): the obligation 'generated = model' for it no longer checks; "
                         "after the failing-input search this is reported as a VIOLATION" % gen_status.get("detail", "")[:300])
    pr = vlib.coq_check_props("Props/C06_qos.v", runners=["Run/QosRun.v"])
    st["proof"] = {k: pr.get(k) for k in ("ok", "obligations", "discharged", "axioms", "closed", "theorems", "failed_file", "error", "runners_ok")}
    if standalone:
        res.add_proof(pr, CHECKER)
    exe, err = vlib.build_harness("qos")
    if exe is None:
        raise vlib.Infra("qos harness does not build against /repo (is the tree compilable?):\n" + err)
    # known finding F32: re-confirm on the real code
    f32 = confirm_f32(exe)
    if f32:
        res.known_finding("F32", f32)
    # corpus first, then generated cases
    lines = []
    if os.path.exists(CORPUS):
        for c in open(CORPUS):
            c = c.strip()
            if c and not c.startswith("#"):
                kind, init, ops = c.split("|")[:3]
                lines.append(replay_line(exe, kind, init, ops.split()))
    ncorpus = len(lines)
    n = 2100 if quick else 20100
    lines += [l for l in vlib.harness(exe, ["run", "-seed", str(res.seed), "-n", str(n), "-len", "24" if quick else "40"]).splitlines() if l.strip()]
    bad = eval_cases(lines, "C06qos") if pr["runners_ok"] else None
    allbad = sorted(set(bad["hand"] + bad["gen"] + bad["loop"])) if bad is not None else []
    kinds = {"window-op-lists": sum(1 for l in lines if l[0] == "W"), "popqos-window-lists": sum(1 for l in lines if l[0] == "R"),
             "with-a-refusal": sum(1 for l in lines if nontrivial(l)),
             "with-boundary-value": sum(1 for l in lines if re.search(r"\b(65535|65534|4294967295|4294967294)\b", l)),
             "with-wrap": sum(1 for l in lines if l[0] == "W" and wrap_in(l))}
    st.update(evaluations=len(lines), corpus_cases=ncorpus, distinct_nontrivial=len({l for l in lines if nontrivial(l)}),
              rule=("API-level differential runs of the real qos.AmqpQos (op lists over Inc/Dec/Update/Release/Copy/IsActive, boundary values "
                    "0,1,65534,65535,2^31,2^32-2,2^32-1 mixed with small limits that are reached) and of the real queue.PopQos window loop "
                    "(fresh queue.Queue with one message per attempt, 0..3 windows, settlements) against the Coq model evaluated by vm_compute: hand model "
                    "AND the functions translated from qos.go; non-trivial = the case contains a refused Inc / refused pop; distinct = distinct case lines"),
              generator_distribution=kinds, samples=lines[ncorpus:ncorpus + 2] + lines[-2:],
              traces_validated_against_impl=len(lines) - len(allbad),
              mismatches=None if bad is None else {k: len(v) for k, v in bad.items()})
    if standalone:
        for k in ("evaluations", "distinct_nontrivial", "rule", "generator_distribution", "samples", "traces_validated_against_impl"):
            res.cov[k] = st[k]
        res.cov["translator"] = st["translator"]
        res.cov["exhaustive"] = False
    # search-only probe of the atomicity the model assumes: several goroutines on one real window
    conc = []
    for lim in (1, 2, 3):
        out = vlib.harness(exe, ["concurrent", "-limit", str(lim), "-workers", "8", "-rounds", "20000" if quick else "200000"]).strip()
        m = re.search(r"max_count_seen=(\d+)", out)
        conc.append(dict(limit=lim, line=out, exceeded=bool(m) and int(m.group(1)) > lim))
    st["concurrent_probe"] = conc
    if standalone:
        res.cov["concurrent_probe"] = conc
    decide(res, pr, bad, lines, exe, gen_status, st)
    return st


def wrap_in(line):
    kind, init, ops, outs = line.split("|")
    if broken_line(line):
        return False
    pc, ps = (int(x) for x in init.split(","))
    w = (pc, 0, ps, 0)
    for o, r in zip(ops.split(), outs.split()):
        if o[0] == "I":
            c, s = (int(x) for x in o[1:].split(","))
            if wraps(w, c, s):
                return True
        w = parse_w(r.split(":")[1])
    return False


def decide(res, pr, bad, lines, exe, gen_status, st):
    allbad = sorted(set(bad["hand"] + bad["gen"] + bad["loop"])) if bad is not None else None
    exceeded = [c for c in st.get("concurrent_probe", []) if c["exceeded"]]
    unrec = gen_status.get("status") != "ok"
    if pr["ok"] and allbad == [] and not exceeded and not unrec:
        return
    what = []
    if unrec:
        # one entry per function / fact the translator could not recognise: "<Go name>: <reason>"
        what.append("obligation 'generated = model' no longer checks: the translator does not recognise %s "
                    "(the model's function is no longer shown to be the source's)" % gen_status.get("detail", "?")[:600])
    if exceeded:
        what.append("concurrent probe: a shared window with prefetchCount %d held %s charges at once (%s)" %
                    (exceeded[0]["limit"], re.search(r"max_count_seen=(\d+)", exceeded[0]["line"]).group(1), exceeded[0]["line"]))
    if not pr["ok"]:
        what.append("proof obligation no longer checks: %s: %s" % (pr.get("failed_file"), (pr.get("error") or "")[:400]))
    if bad is None:
        what.append("model runner does not build")
    elif allbad:
        what.append("correspondence qos model/implementation differs on %d cases (hand model %d, translated functions %d, PopQos loop %d; first: %s)" %
                    (len(allbad), len(bad["hand"]), len(bad["gen"]), len(bad["loop"]), lines[allbad[0]]))
    # failing-input search: judge the implementation's own traces with the executable statement of the property;
    # disagreeing cases first, then everything that ran
    order = (allbad or []) + [i for i in range(len(lines)) if not allbad or i not in set(allbad)]
    failing = None
    for i in order:
        j = judge(lines[i])
        if j is not None:
            failing = (lines[i], j)
            break
    if failing is None and not pr["ok"]:
        # more volume before giving up
        extra = [l for l in vlib.harness(exe, ["run", "-seed", str(int(res.seed) + 7919), "-n", "30000", "-len", "30"]).splitlines() if l.strip()]
        for l in extra:
            j = judge(l)
            if j is not None:
                failing = (l, j)
                break
    if failing is None and exceeded:
        e = exceeded[0]
        res.violation(dict(kind="qos-concurrent", limit=e["limit"], observation=e["line"], broken=what,
                           replay_cmd="harness/bin/qos concurrent -limit %d -workers 8 -rounds 200000" % e["limit"]),
                      True, "prefetch window: %d goroutines sharing one window with prefetchCount %d: more than %d charges outstanding at once (%s)" %
                      (8, e["limit"], e["limit"], e["line"]))
        return
    if failing:
        line = shrink(exe, failing[0])
        j = judge(line) or failing[1]
        kind, init, ops, outs = line.split("|")
        res.violation(dict(kind="qos-case", case="%s|%s|%s" % (kind, init, ops), implementation_outputs=outs,
                           first_failing_step=j[0], observation=j[1], broken=what,
                           replay_cmd="harness/bin/qos replay '%s|%s|%s'" % (kind, init, ops)),
                      True, "prefetch window: %s  [case %s|%s|%s]" % (j[1], kind, init, ops))
    else:
        res.violation(dict(kind="obligation", broken=what, translator=gen_status,
                           smallest_disagreeing_case=lines[allbad[0]] if allbad else None), False, "; ".join(what))


def run(res):
    res.prop = "C06"   # verdict lines and replay files name the property; evidence goes to evidence/C06_qos.json
    res.cov["trusted_base"] = vlib.TRUSTED_BASE_COMMON + [
        "modelled, not verified: the mutex embedded in qos.AmqpQos makes every method one atomic step; a window list holds distinct windows (no aliasing)",
        "the executable judge in checks/C06_qos.py (python) used only to search for and shrink failing inputs",
    ]
    res.assumptions += ["charges do not wrap the uint16/uint32 counters (qos_no_wrap / led_nowrap; open finding F32 otherwise)",
                        "arguments of Inc/Dec are uint16/uint32 values as the Go types guarantee"]
    run_qos(res, standalone=True)
    res.finish = lambda: finish_as(res, "C06_qos")


def finish_as(res, evidence_name):
    ev = dict(property_id=res.prop, component=evidence_name, tier=res.tier, seed=int(res.seed), level="proof",
              coverage=res.cov, assumptions=res.assumptions, wall_s=round(time.time() - res.t0, 2), violations=len(res.violations))
    if res.notes:
        ev["coverage"]["notes"] = res.notes
    if res.known:
        ev["coverage"]["known_findings_reproduced"] = [k[0] for k in res.known]
    os.makedirs(os.path.join(vlib.VERIF, "evidence"), exist_ok=True)
    json.dump(ev, open(os.path.join(vlib.VERIF, "evidence", evidence_name + ".json"), "w"), indent=1, default=str)
    for fid, what in res.known:
        print("KNOWN-FINDING: property=%s %s %s" % (res.prop, fid, what))
    for path, nofound, what in res.violations:
        log("violation:", what)
        print("VIOLATION property=%s replay=%s%s" % (res.prop, path, " no-failing-input-found" if nofound else ""))
    sys.stdout.flush()
    return 1 if res.violations else 0


def replay(path):
    r = json.load(open(path))
    if r.get("kind") not in ("qos-case", "qos-concurrent"):
        print(json.dumps(r, indent=1))
        return 0
    exe, err = vlib.build_harness("qos")
    if exe is None:
        raise vlib.Infra(err)
    if r["kind"] == "qos-concurrent":
        out = vlib.harness(exe, ["concurrent", "-limit", str(r["limit"]), "-workers", "8", "-rounds", "200000"]).strip()
        print("implementation:", out)
        m = re.search(r"max_count_seen=(\d+)", out)
        bad = bool(m) and int(m.group(1)) > int(r["limit"])
        print("property statement (outstanding charges never exceed prefetchCount):", "VIOLATED" if bad else "holds on this run")
        return 1 if bad else 0
    kind, init, ops = r["case"].split("|")
    line = replay_line(exe, kind, init, ops.split())
    print("implementation:", line)
    j = judge(line)
    print("property statement (window clauses of C06):", "holds on this trace" if j is None else "VIOLATED at step %d: %s" % j)
    try:
        bad = eval_cases([line], "C06qos-replay")
        print("model:", "agrees with the implementation" if not any(bad.values()) else "differs from the implementation %s" % {k: bool(v) for k, v in bad.items()})
    except vlib.Infra as e:
        print("model: not evaluated (%s)" % str(e)[:200])
    return 0 if j is None else 1
