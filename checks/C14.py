"""C14 - closing a channel or losing a connection releases everything it held."""
import brokercheck, monitors


def nontrivial(se):
    return any(st["op"].split()[0] in ("DROP", "CLOSE", "CHCLOSE", "CLOSEOK") for st in se["steps"])


def run(res):
    brokercheck.run(res, "C14", ["Props/C14.v", "Props/C14_history.v"], monitors.monitor_c14, nontrivial=nontrivial, focus="split")


def replay(path):
    return brokercheck.replay(path, monitors.monitor_c14)
