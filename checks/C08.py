"""C08 - messages are routed to exactly the queues AMQP says."""
import functools, json, os, struct
import vlib
from vlib import log

CHECKER = "make -C /verif/coq Props/C08.vo (full .vo build of the cone) && coqc -Q /verif/coq GMQ Props/C08.v"
ALPHA = ["a", "b", "ab", "*", "#"]


# ------------------------------------------------------------------ the executable property statement (SPEC)
# Written from the AMQP 0-9-1 rules, independent of the Coq model and of /repo.
def words(s):
    return [] if s == b"" else s.split(b".")


def spec_topic_words(p, k):
    @functools.lru_cache(maxsize=None)
    def m(i, j):
        if i == len(p):
            return j == len(k)
        if p[i] == b"#":                       # zero or more words
            return any(m(i + 1, j2) for j2 in range(j, len(k) + 1))
        if j == len(k):
            return False
        if p[i] == b"*":                       # exactly one word
            return m(i + 1, j + 1)
        return p[i] == k[j] and m(i + 1, j + 1)
    return m(0, 0)


def spec_topic(pattern, key):
    return spec_topic_words(tuple(words(pattern)), tuple(words(key)))


def pattern_plain(pattern):
    """every word is a wildcard on its own or contains no wildcard character (otherwise the text is silent)"""
    return all(len(w) <= 1 or (b"*" not in w and b"#" not in w) for w in words(pattern))


def unhex(s):
    return bytes.fromhex(s)


def fbits(v):
    if v[0] == "f32":
        return struct.unpack(">f", struct.pack(">I", int(v[1])))[0]
    return struct.unpack(">d", struct.pack(">Q", int(v[1])))[0]


def norm_value(v):
    t = v[0]
    if t in ("i64", "u64", "i8", "u8", "i16", "u16", "i32", "u32", "time"):
        return (t, int(v[1]))
    if t in ("f32", "f64"):
        return (t, fbits(v))
    if t == "dec":
        return (t, int(v[1]), int(v[2]))
    if t in ("str", "bytes"):
        return (t, unhex(v[1]))
    if t == "bool":
        return (t, bool(v[1]))
    if t == "nil":
        return ("nil",)
    return (t, json.dumps(v[1:], sort_keys=True))


def field_equal(a, b):
    a, b = norm_value(a), norm_value(b)
    return a == b          # floats: python == is IEEE (nan != nan, 0.0 == -0.0); different tags differ


def table(t):
    return None if t is None else {unhex(k): v for k, v in t}


def headers_rule(args, hdrs, any_empty):
    args = args or {}
    hdrs = hdrs or {}
    xm = args.get(b"x-match")
    mode_any = xm is not None and xm[0] in ("str", "bytes") and unhex(xm[1]) == b"any"   # a string, short or long
    margs = [(k, v) for k, v in args.items() if not k.startswith(b"x-")]
    def matched(k, v):
        return k in hdrs and (v[0] == "nil" or field_equal(v, hdrs[k]))
    if mode_any:
        return any(matched(k, v) for k, v in margs) or (not margs and any_empty)
    return all(matched(k, v) for k, v in margs)


def xmatch_valid(args):
    if not args or b"x-match" not in args:
        return True
    v = args[b"x-match"]
    return v[0] in ("str", "bytes") and unhex(v[1]) in (b"all", b"any")


def has_nan(args):
    return any(v[0] in ("f32", "f64") and fbits(v) != fbits(v) for v in (args or {}).values())


def ident(q, key, args):
    if args is None:
        return (q, key, None)
    return (q, key, tuple(sorted((k,) + norm_value(v) for k, v in args.items())))


def judge_route(c):
    """-> (verdict, detail); verdict in ok | skip | F51 | bad.  c carries the implementation's 'out'."""
    out = c["out"]
    if out.get("panic"):
        return "bad", "implementation panicked: " + out["panic"]
    ty = c["ty"]
    if ty not in (1, 2, 3, 4):
        return "skip", "unknown exchange type"
    bound = {}            # identity -> (q, key, args, order)
    judge_list = True
    for i, op in enumerate(c["ops"]):
        q, key = unhex(op["q"]), unhex(op.get("key", ""))
        if op["op"] == "!":
            bound = {k: v for k, v in bound.items() if v[0] != q}
            continue
        args = table(op.get("args"))
        topic = bool(op.get("topic", False))
        if topic != (ty == 3):
            return "skip", "binding made with a topic flag that queueBind never uses for this exchange type"
        err = i in out["errs"]
        constrained = xmatch_valid(args) and (ty != 3 or pattern_plain(key))
        if constrained and err:
            return "bad", "NewBinding refused a well-formed binding (op %d)" % i
        if err:
            continue
        if not xmatch_valid(args):
            return "skip", "a binding with an invalid x-match was accepted (not constrained by C08)"
        if has_nan(args):
            judge_list = False
        idn = ident(q, key, args)
        if op["op"] == "+":
            bound.setdefault(idn, (q, key, args))
        else:
            bound.pop(idn, None)
    if judge_list:
        have = [(unhex(q), unhex(k)) for q, k in out["bindings"]]
        want = sorted((v[0], v[1]) for v in bound.values())
        if sorted(have) != want:
            return "bad", "binding list after the operations is %s, the bindings in effect are %s" % (have, want)
    msg = c["msg"]
    mkey, mhdr = unhex(msg["key"]), table(msg.get("hdr"))
    lower, upper, f51 = set(), set(), set()
    for q, key, args in bound.values():
        if unhex(msg["ex"]) != unhex(c["ex"]):
            continue                                   # not a binding on the named exchange
        if ty == 1:
            lo = up = (key == mkey)
        elif ty == 2:
            lo = up = True
        elif ty == 3:
            if not pattern_plain(key):
                lo, up = False, True
            else:
                lo = up = spec_topic(key, mkey)
        else:
            lo, up = headers_rule(args, mhdr, False), headers_rule(args, mhdr, True)
        if lo:
            lower.add(q)
        if up:
            upper.add(q)
        # F51: without a headers table the code never matches a binding that has an argument table
        if not (ty == 4 and mhdr is None and args is not None and
                not [k for k in args if not k.startswith(b"x-")]):
            if up:
                f51.add(q)
    got = set(unhex(q) for q in out["matched"])
    if lower <= got <= upper:
        return "ok", ""
    if got <= upper and (lower & f51) <= got:
        return "F51", "message without headers table misses %s" % sorted(lower - got)
    return "bad", "matched queues %s, AMQP rules give %s%s" % (
        sorted(got), sorted(lower), "" if lower == upper else " (up to %s)" % sorted(upper))


def judge_topic(pattern, key, r):
    if r == "P":
        return "bad", "panic"
    if not pattern_plain(pattern):
        return ("skip", "") if r in "012" else ("bad", r)
    if r == "2":
        return "bad", "NewBinding refused the well-formed pattern"
    want = "1" if spec_topic(pattern, key) else "0"
    return ("ok", "") if r == want else ("bad", "MatchTopic says %s, word-wise rule says %s" % (r, want))


# ------------------------------------------------------------------ Coq terms
def cb(b):
    return "[" + "; ".join(str(x) for x in b) + "]"


def cval(v):
    t = v[0]
    if t == "nil": return "VNil"
    if t == "bool": return "(VBool %s)" % ("true" if v[1] else "false")
    if t in ("i8", "u8", "i16", "u16", "i32", "u32", "i64", "u64"):
        return "(VInt %s (%d)%%Z)" % (t.upper(), int(v[1]))
    if t in ("f32", "f64"): return "(VFloat %s %d)" % (t.upper(), int(v[1]))
    if t == "dec": return "(VDec %d (%d)%%Z)" % (int(v[1]), int(v[2]))
    if t == "str": return "(VStr %s)" % cb(unhex(v[1]))
    if t == "bytes": return "(VBytes %s)" % cb(unhex(v[1]))
    if t == "time": return "(VTime (%d)%%Z)" % int(v[1])
    raise KeyError(t)


def ctable(t):
    if t is None:
        return "None"
    # canonical form of a Go map: sorted by key, later duplicates win
    d = {}
    for k, v in t:
        d[unhex(k)] = v
    return "(Some [" + "; ".join("(%s, %s)" % (cb(k), cval(d[k])) for k in sorted(d)) + "])"


def route_to_coq(c):
    """None when the case uses values outside the model (arrays, nested tables) or panicked."""
    try:
        ops = []
        for op in c["ops"]:
            if op["op"] == "!":
                ops.append("RDelQueue %s" % cb(unhex(op["q"])))
            else:
                ops.append("%s %s %s %s %s" % ("RBind" if op["op"] == "+" else "RUnbind", cb(unhex(op["q"])),
                                              cb(unhex(op.get("key", ""))), ctable(op.get("args")),
                                              "true" if op.get("topic") else "false"))
        m = c["msg"]
        out = c["out"]
        matched = "None" if out.get("panic") else "(Some [" + "; ".join(cb(unhex(q)) for q in out["matched"]) + "])"
        return ("{| rc_type := %d; rc_exname := %s; rc_ops := [%s];\n   rc_msg := {| m_exchange := %s; m_key := %s; m_headers := %s; m_mandatory := false |};\n"
                "   rc_errs := [%s]; rc_bindings := [%s]; rc_matched := %s |}") % (
            c["ty"], cb(unhex(c["ex"])), "; ".join(ops), cb(unhex(m["ex"])), cb(unhex(m["key"])), ctable(m.get("hdr")),
            "; ".join("%d%%nat" % e for e in out["errs"]),
            "; ".join("(%s, %s)" % (cb(unhex(q)), cb(unhex(k))) for q, k in out["bindings"]), matched)
    except KeyError:
        return None


def coq_nats(out, name):
    return [int(m.split("%")[0]) for m in vlib.parse_coq_list(out, name)]


HEAD = ("From Coq Require Import List NArith ZArith.\nImport ListNotations.\n"
        "From GMQ Require Import Route.Value Route.Cfg Route.Exchange Route.gen.RouteGen Run.RouteRun.\nOpen Scope N_scope.\n")


def eval_routes(cases, tag):
    """indices of route cases on which the Coq model and the implementation differ"""
    bad, terms, idx = [], [], []
    for i, c in enumerate(cases):
        t = route_to_coq(c)
        if t is None:
            continue
        terms.append(t); idx.append(i)
    CH = 1200
    for s in range(0, len(terms), CH):
        text = HEAD + "Definition cases : list rt_case := [\n%s\n].\nDefinition M := Eval vm_compute in rt_mismatches cases.\nPrint M.\n" % ";\n".join(terms[s:s + CH])
        for m in coq_nats(vlib.coq_eval(tag, text), "M"):
            bad.append(idx[s + m])
    return sorted(bad)


def eval_topics(pairs, tag):
    """pairs: (pattern bytes, key bytes, result char). Panics count as mismatches."""
    bad, terms, idx = [], [], []
    for i, (p, k, r) in enumerate(pairs):
        if r == "P":
            bad.append(i); continue
        terms.append("(%s, %s, %s)" % (cb(p), cb(k), r)); idx.append(i)
    CH = 1500
    for s in range(0, len(terms), CH):
        text = HEAD + "Definition cases : list (bytes * bytes * N) := [\n%s\n].\nDefinition M := Eval vm_compute in tp_mismatches cases.\nPrint M.\n" % ";\n".join(terms[s:s + CH])
        for m in coq_nats(vlib.coq_eval(tag, text), "M"):
            bad.append(idx[s + m])
    return sorted(bad)


def eval_exhaustive(rows, pn, kn, tag):
    """rows: result strings (E | P | hex) per pattern in enumeration order -> mismatching pattern indices"""
    alpha = "[" + "; ".join(cb(a.encode()) for a in ALPHA) + "]"
    exp = "; ".join("None" if r in ("E", "P") else "Some 0x%s" % r for r in rows)
    text = HEAD + "Definition M := Eval vm_compute in ex_mismatches %s %s %d %d [%s].\nPrint M.\n" % (alpha, alpha, pn, kn, exp)
    bad = coq_nats(vlib.coq_eval(tag, text), "M")
    return sorted(set(bad + [i for i, r in enumerate(rows) if r == "P"]))


def lists_upto(alpha, n):
    def of_len(l):
        if l == 0:
            return [[]]
        return [[a] + p for a in alpha for p in of_len(l - 1)]
    out = []
    for l in range(n + 1):
        out += of_len(l)
    return out


# ------------------------------------------------------------------ broker level (server/vhost.go, queueMethods.go, channel.go)
# Scripts for harness/cmd/broker (the broker-level driver: real server in-process, raw frame client).
# Only the routing-relevant observations are used: basic.return frames and which ready lists gained the message.
TYPE_ID = {"direct": 1, "fanout": 2, "topic": 3}
B_KEYS = ["k", "a", "a.b", "b", "q1", "q2"]
B_PATS = ["#", "*", "a.*", "*.b", "a.#", "#.b", "a.b", "k"]


def gen_broker_script(rng):
    """-> list of abstract steps: ("XD", name, type) ("QD", q) ("QB"/"QU", q, ex, key, args) ("QDEL", q) ("PUB", ex, key, mandatory)"""
    steps = []
    exs = {}
    for nm, ty in (("ed", "direct"), ("ef", "fanout"), ("et", "topic")):
        if rng.random() < 0.8:
            steps.append(("XD", nm, ty)); exs[nm] = ty
    queues = []
    made = []
    for _ in range(rng.randint(4, 14)):
        r = rng.random()
        if r < 0.22 or not queues:
            q = rng.choice(["q1", "q2", "q3"])
            steps.append(("QD", q))
            if q not in queues: queues.append(q)
        elif r < 0.50 and exs:
            ex = rng.choice(sorted(exs))
            key = rng.choice(B_PATS if exs[ex] == "topic" else B_KEYS)
            args = rng.choice([[], [], [("h1", "v")], [("x-match", "any")]])
            b = (rng.choice(queues), ex, key, args)
            made.append(b); steps.append(("QB",) + b)
        elif r < 0.58 and [b for b in made if b[0] in queues]:
            steps.append(("QU",) + rng.choice([b for b in made if b[0] in queues]))
        elif r < 0.63:
            q = rng.choice(queues)
            steps.append((rng.choice(["QU", "QB"]), q, "", q, []))     # the default exchange: must be refused
        elif r < 0.70 and len(queues) > 1:
            q = rng.choice(queues)
            steps.append(("QDEL", q)); queues.remove(q)
        else:
            ex = rng.choice(sorted(exs) + ["", ""])
            key = rng.choice(["q1", "q2", "q3", "nope"]) if ex == "" else rng.choice(B_KEYS + ["a.a.b", "x"])
            steps.append(("PUB", ex, key, rng.random() < 0.6))
    # always end by publishing to every declared queue through the default exchange, and to a missing one
    for q in ["q1", "q2", "q3"]:
        steps.append(("PUB", "", q, True))
    return steps


def broker_ops(steps):
    """abstract steps -> op lines of harness/cmd/broker; returns (ops, index of the op line of each step)"""
    d = lambda x: x if x else "-"
    ops, at, ch, uid = ["OPEN 1", "CH 1 1"], [], 1, 0
    for st in steps:
        if st[0] == "XD":
            ops.append("XD 1 %d %s %s 0 0 0 0 0" % (ch, st[1], st[2]))
        elif st[0] == "QD":
            ops.append("QD 1 %d %s 0 0 0 0 0" % (ch, st[1]))
        elif st[0] in ("QB", "QU"):
            args = ",".join("%s=%s" % kv for kv in st[4]) or "-"
            ops.append("%s 1 %d %s %s %s %s%s" % (st[0], ch, st[1], d(st[2]), d(st[3]), args, " 0" if st[0] == "QB" else ""))
        elif st[0] == "QDEL":
            ops.append("QDEL 1 %d %s 0 0 0" % (ch, st[1]))
        elif st[0] == "PUB":
            uid += 1
            ops.append("PUB 1 %d %s %s %d 0 0 u%d 3" % (ch, d(st[1]), d(st[2]), 1 if st[3] else 0, uid))
        at.append(len(ops) - 1)
        if st[0] in ("QB", "QU") and st[2] == "":
            ch += 1                              # the broker closes the channel (403): carry on on a fresh one
            ops.append("CH 1 %d" % ch)
    return ops, at


def run_broker_scripts(bexe, scripts):
    outs = []
    for steps in scripts:
        ops, at = broker_ops(steps)
        o = json.loads(vlib.harness(bexe, ["replay", "-rabbit=true", "-engine", "buntdb"], input="\n".join(ops) + "\n", timeout=120))
        obs, uid = [], 0
        for st, i in zip(steps, at):
            if i >= len(o["steps"]):
                obs.append(None); continue
            r = o["steps"][i]
            if st[0] != "PUB":
                obs.append(dict(frames=r["frames"], note=r.get("note")))
                continue
            uid += 1
            pushed = []
            for l in r["snap"]:
                if l.startswith("queue "):
                    f = l.split()
                    ready = l[l.index("ready=[") + 7:l.index("]", l.index("ready=["))].split()
                    pushed += [f[1]] * ready.count("u%d" % uid)
            obs.append(dict(returned=any(":basic.return(" in fr for fr in r["frames"]), pushed=sorted(pushed), note=r.get("note")))
        outs.append(obs)
    return outs


def judge_broker(steps, obs):
    """the AMQP rules on the abstract state -> (index of first bad step, why) or None"""
    queues, bound = set(), set()
    exs = {"": "direct"}
    for i, (st, ob) in enumerate(zip(steps, obs)):
        if ob is None:
            return i, "the broker stopped answering"
        if st[0] == "XD":
            exs.setdefault(st[1], st[2])
        elif st[0] == "QD":
            queues.add(st[1])
        elif st[0] in ("QB", "QU"):
            _, q, ex, key, args = st
            if ex not in exs or q not in queues:
                return None                                   # 404 closes the channel: nothing after it is meaningful
            if ex != "":                                      # the default exchange accepts neither bind nor unbind
                b = (q, ex, key, tuple(args))
                (bound.add if st[0] == "QB" else bound.discard)(b)
        elif st[0] == "QDEL":
            if st[1] not in queues:
                return None                                   # 404
            queues.discard(st[1]); bound = {b for b in bound if b[0] != st[1]}
        elif st[0] == "PUB":
            _, ex, key, mand = st
            if ex == "":
                want = {q for q in queues if q == key}        # default exchange: by queue name
            elif ex not in exs:
                return None                                   # 404, see above
            else:
                ty = exs[ex]
                want = {b[0] for b in bound if b[1] == ex and (ty == "fanout" or (ty == "direct" and b[2] == key) or
                                                               (ty == "topic" and spec_topic(b[2].encode(), key.encode())))}
            if ob["pushed"] != sorted(want):
                return i, "publish exchange=%r routing-key=%r placed in %s, AMQP rules give %s (each once)" % (ex, key, ob["pushed"], sorted(want))
            if ob["returned"] != (mand and not want):
                return i, "publish exchange=%r routing-key=%r mandatory=%s matched %s: returned=%s" % (ex, key, mand, sorted(want), ob["returned"])
    return None


def valid_len(steps):
    """number of leading steps the broker does not answer with a 404 (which would close the channel)"""
    queues, exs = set(), {""}
    for i, st in enumerate(steps):
        if st[0] == "XD": exs.add(st[1])
        elif st[0] == "QD": queues.add(st[1])
        elif st[0] in ("QB", "QU") and (st[2] not in exs or st[1] not in queues): return i
        elif st[0] == "QDEL":
            if st[1] not in queues: return i
            queues.discard(st[1])
        elif st[0] == "PUB" and st[1] not in exs: return i
    return len(steps)


def broker_to_coq(steps, obs):
    out = []
    n = valid_len(steps)
    for st, ob in list(zip(steps, obs))[:n]:
        if ob is None:
            break
        b = lambda x: cb(x.encode())
        if st[0] == "XD":
            out.append("BOp (TDeclareExchange %s %d)" % (b(st[1]), TYPE_ID[st[2]]))
        elif st[0] == "QD":
            out.append("BOp (TDeclareQueue %s)" % b(st[1]))
        elif st[0] in ("QB", "QU"):
            args = "(Some [" + "; ".join("(%s, VStr %s)" % (b(k), b(v)) for k, v in sorted(st[4])) + "])"
            out.append("BOp (%s %s %s %s %s)" % ("TBind" if st[0] == "QB" else "TUnbind", b(st[1]), b(st[2]), b(st[3]), args))
        elif st[0] == "QDEL":
            out.append("BOp (TDeleteQueue %s)" % b(st[1]))
        else:
            out.append("BPub {| m_exchange := %s; m_key := %s; m_headers := None; m_mandatory := %s |} %s [%s]" % (
                b(st[1]), b(st[2]), "true" if st[3] else "false", "true" if ob["returned"] else "false",
                "; ".join(b(q) for q in ob["pushed"])))
    return "[" + ";\n  ".join(out) + "]"


def eval_broker(scripts, outs, tag):
    text = HEAD + "Definition scripts : list (list br_step) := [\n%s\n].\nDefinition M := Eval vm_compute in br_mismatches scripts.\nPrint M.\n" % ";\n".join(
        broker_to_coq(s, o) for s, o in zip(scripts, outs))
    out = vlib.coq_eval(tag, text)
    import re
    m = re.search(r"M\s*=\s*(.*?)\n\s*:\s", out, re.S)
    if not m:
        raise vlib.Infra("cannot find M in coq output:\n" + out[-1500:])
    body = re.sub(r"\s+", " ", m.group(1)).replace("%nat", "")
    inner = re.findall(r"\[([^\[\]]*)\]", body[1:-1] if body.startswith("[") else body)
    return [[int(x) for x in i.split(";") if x.strip()] for i in inner]


def shrink_broker(bexe, steps):
    def bad(s):
        return judge_broker(s, run_broker_scripts(bexe, [s])[0]) is not None
    changed = True
    while changed:
        changed = False
        for i in range(len(steps)):
            cand = steps[:i] + steps[i + 1:]
            if cand and bad(cand):
                steps = cand; changed = True
                break
    return steps


# ------------------------------------------------------------------ the check
def corpus_lines():
    d = os.path.join(vlib.VERIF, "corpus", "C08")
    out = []
    if os.path.isdir(d):
        for f in sorted(os.listdir(d)):
            if f.endswith(".cases"):
                for l in open(os.path.join(d, f)):
                    l = l.strip()
                    if l and not l.startswith("#"):
                        out.append(l)
    return out


def replay_routes(exe, cases):
    inp = "\n".join(json.dumps({k: v for k, v in c.items() if k != "out"}) for c in cases) + "\n"
    return [json.loads(l[2:]) for l in vlib.harness(exe, ["replay-route"], input=inp).splitlines() if l.startswith("R|")]


def shrink_route(exe, c):
    """drop operations / header and argument entries while the judge still says bad"""
    def bad(x):
        return judge_route(replay_routes(exe, [x])[0])[0] == "bad"
    c = json.loads(json.dumps(c))
    changed = True
    while changed:
        changed = False
        for i in range(len(c["ops"])):
            cand = dict(c, ops=c["ops"][:i] + c["ops"][i + 1:])
            if cand["ops"] and bad(cand):
                c = cand; changed = True
                break
        if changed:
            continue
        for i, op in enumerate(c["ops"]):
            a = op.get("args")
            for j in range(len(a or [])):
                cand = json.loads(json.dumps(c))
                cand["ops"][i]["args"] = a[:j] + a[j + 1:]
                if bad(cand):
                    c = cand; changed = True
                    break
            if changed:
                break
        if changed:
            continue
        h = c["msg"].get("hdr")
        for j in range(len(h or [])):
            cand = json.loads(json.dumps(c))
            cand["msg"]["hdr"] = h[:j] + h[j + 1:]
            if bad(cand):
                c = cand; changed = True
                break
    return replay_routes(exe, [c])[0]


def describe_route(c):
    def tb(t):
        if t is None: return "nil"
        return "{" + ", ".join("%s: %s" % (unhex(k).decode("latin1"), v) for k, v in t) + "}"
    ops = []
    for op in c["ops"]:
        if op["op"] == "!":
            ops.append("delete-queue %s" % unhex(op["q"]).decode("latin1"))
        else:
            ops.append("%s queue=%s key=%r args=%s" % ("bind" if op["op"] == "+" else "unbind", unhex(op["q"]).decode("latin1"),
                                                      unhex(op.get("key", "")).decode("latin1"), tb(op.get("args"))))
    m = c["msg"]
    return dict(exchange_type={1: "direct", 2: "fanout", 3: "topic", 4: "headers"}.get(c["ty"], c["ty"]),
                operations=ops, message="exchange=%s routing-key=%r headers=%s" % (
                    unhex(m["ex"]).decode("latin1"), unhex(m["key"]).decode("latin1"), tb(m.get("hdr"))),
                implementation_matched=[unhex(q).decode("latin1") for q in c["out"].get("matched") or []],
                implementation_bindings=[[unhex(q).decode("latin1"), unhex(k).decode("latin1")] for q, k in c["out"]["bindings"]],
                implementation_panic=c["out"].get("panic"))


def run_routing(res):
    quick = res.tier == "quick"
    tr = vlib.run_translator("routing")
    gen_status = tr["files"].get("Route/gen/RouteGen.v", {})
    res.cov["translator"] = {"Route/gen/RouteGen.v": gen_status, "shapes": tr["shapes"]}
    pr = vlib.coq_check_props("Props/C08.v", runners=["Run/RouteRun.v"])
    res.add_proof(pr, CHECKER)
    # the bridge: the broker model's own routing (Broker/Model.v: words, topic_match, matched_queues) IS this component
    # model under the string -> bytes representation, so that C08's theorems speak about the broker LTS
    prb = vlib.coq_check_props("Props/Bridge.v")
    res.add_proof(prb, CHECKER + " && coqc -Q /verif/coq GMQ Props/Bridge.v")
    if pr["ok"] and not prb["ok"]:
        pr["ok"], pr["failed_file"], pr["error"] = False, prb.get("failed_file"), prb.get("error", "")
    res.cov["trusted_base"] = vlib.TRUSTED_BASE_COMMON + [
        "modelled, not verified: Go strings as byte lists; a Go map (amqp.Table, matchedQueues) as a key-sorted association list / duplicate-free list, its iteration order as list order (routing results proved order-independent as sets); reflect.DeepEqual and == on the scalar dynamic types of decoded tables (typed values, IEEE floats by bit pattern); bindLock makes each exchange method atomic",
        "the python re-statement of the AMQP routing rules in checks/C08.py is only the judge of failing inputs, never the reason the property holds",
    ]
    res.assumptions += ["message Header and PropertyList are non-nil when GetMatchedQueues is called (handleContentBody guarantees the former; ReadContentHeader the latter)",
                        "field arrays and nested tables as header/argument values are outside the model (spec leaves them open); they are only run for absence of panics",
                        "open finding F51 (message without headers table vs binding whose argument table has nothing to match) is excluded by hypothesis no_f50 in C08_route_eq_spec_partial"]
    exe, err = vlib.build_harness("routing")
    if exe is None:
        raise vlib.Infra("harness does not build against /repo (is the tree compilable?):\n" + err)
    model_ok = pr["runners_ok"]

    # ---- cases
    pn = kn = 4
    rows = [l.split("|") for l in vlib.harness(exe, ["topic-exh", "-pn", str(pn), "-kn", str(kn)]).splitlines() if l.startswith("X|")]
    row_res = [r[3] for r in rows]
    corpus = corpus_lines()
    t_inputs = [l.split("|")[1:3] for l in corpus if l.startswith("T|")]
    r_inputs = [json.loads(l[2:]) for l in corpus if l.startswith("R|")]
    pairs = []
    for p, k in t_inputs:
        out = vlib.harness(exe, ["replay-topic", p, k]).strip().split("|")
        pairs.append((unhex(out[1]), unhex(out[2]), out[3]))
    n_corpus_pairs = len(pairs)
    for l in vlib.harness(exe, ["topic-rand", "-seed", str(res.seed), "-n", "3000" if quick else "40000"]).splitlines():
        f = l.split("|")
        if f[0] == "T":
            pairs.append((unhex(f[1]), unhex(f[2]), f[3]))
    routes = replay_routes(exe, r_inputs) if r_inputs else []
    n_corpus_routes = len(routes)
    routes += [json.loads(l[2:]) for l in
               vlib.harness(exe, ["route", "-seed", str(res.seed), "-n", "2400" if quick else "30000"]).splitlines() if l.startswith("R|")]

    # ---- model side (Coq, vm_compute)
    bad_rows = bad_pairs = bad_routes = None
    if model_ok:
        bad_rows = eval_exhaustive(row_res, pn, kn, "C08x")
        bad_pairs = eval_topics(pairs, "C08t")
        bad_routes = eval_routes(routes, "C08r")

    # ---- broker level: scripts against the running broker (default binding, default-exchange guards, publish decision)
    import random
    rng = random.Random(res.seed)
    scripts = [[("QD", "q1"), ("PUB", "", "q1", True), ("QU", "q1", "", "q1", []), ("PUB", "", "q1", True)],
               [("XD", "ed", "direct"), ("QD", "q1"), ("QD", "q2"), ("QB", "q1", "ed", "k", []), ("QB", "q2", "ed", "k", []),
                ("QB", "q2", "ed", "k", []), ("PUB", "ed", "k", True), ("PUB", "ed", "x", True), ("PUB", "ed", "x", False),
                ("QDEL", "q2"), ("PUB", "ed", "k", True), ("PUB", "", "q2", True)]]
    scripts += [gen_broker_script(rng) for _ in range(60 if quick else 600)]
    bexe, berr = vlib.build_harness("broker")
    b_outs, b_bad_model, b_judged = None, None, []
    if bexe is None:
        res.notes.append("broker-level harness (harness/cmd/broker) does not build; broker-level scripts skipped: " + berr[-300:])
    else:
        try:
            b_outs = run_broker_scripts(bexe, scripts)
        except vlib.Infra as e:
            res.notes.append("broker-level scripts could not be run: %s" % str(e)[-300:])
    if b_outs is not None:
        for si, (st, ob) in enumerate(zip(scripts, b_outs)):
            j = judge_broker(st, ob)
            if j:
                b_judged.append((si, j[0], j[1]))
        if model_ok:
            mm = eval_broker(scripts, b_outs, "C08b")
            b_bad_model = [(si, m) for si, m in enumerate(mm) if m]

    # ---- judge every case with the executable statement (cheap; also finds the known finding)
    verdicts = {"ok": 0, "skip": 0, "F51": 0, "bad": 0}
    judged_bad = []
    for i, c in enumerate(routes):
        v, why = judge_route(c)
        verdicts[v] += 1
        if v == "bad":
            judged_bad.append(("R", i, why))
    tv = {"ok": 0, "skip": 0, "bad": 0}
    for i, (p, k, r) in enumerate(pairs):
        v, why = judge_topic(p, k, r)
        tv[v] += 1
        if v == "bad":
            judged_bad.append(("T", i, why))
    # exhaustive rows: judge only rows that disagree with the model, or a sample when an obligation broke
    keys = [".".join(t).encode() for t in lists_upto(ALPHA, kn)]
    pats = [".".join(t).encode() for t in lists_upto(ALPHA, pn)]

    def judge_row(i):
        r = row_res[i]
        if r == "P":
            return pats[i], b"", "panic"
        if r == "E":
            return (pats[i], b"", "NewBinding refused the well-formed pattern") if pattern_plain(pats[i]) else None
        bits = int(r, 16)
        for j, k in enumerate(keys):
            got = (bits >> j) & 1
            if pattern_plain(pats[i]) and got != (1 if spec_topic(pats[i], k) else 0):
                return pats[i], k, "MatchTopic says %d, word-wise rule says %d" % (got, 1 - got)
        return None

    rows_to_judge = list(bad_rows or [])
    if not pr["ok"] or bad_rows is None or gen_status.get("status") != "ok":
        rows_to_judge = list(range(len(row_res)))
    row_fail = None
    for i in rows_to_judge:
        row_fail = judge_row(i)
        if row_fail:
            break

    # ---- evidence
    n_pairs_exh = len(row_res) * len(keys)
    res.cov["evaluations"] = n_pairs_exh + len(pairs) + len(routes)
    nontrivial = set()
    for c in routes:
        if len(c["out"]["bindings"]) >= 2 or c["out"]["matched"]:
            nontrivial.add(json.dumps({k: v for k, v in c.items() if k != "out"}, sort_keys=True))
    ntp = set((p, k) for p, k, r in pairs if (b"*" in p or b"#" in p))
    res.cov["distinct_nontrivial"] = len(nontrivial) + len(ntp) + sum(1 for p in pats if b"*" in p or b"#" in p) * len(keys)
    res.cov["rule"] = ("API-level differential runs of binding.NewBinding + exchange.Exchange (AppendBinding/RemoveBinding/RemoveQueueBindings/"
                       "GetMatchedQueues, under recover()) against the Coq model (vm_compute): ALL (pattern, key) pairs with up to %d tokens each over {a,b,ab,*,#} "
                       "(%d pairs, enumerated on both sides), %d seeded random longer pairs (empty words, leading/trailing dots, glued words, odd bytes), "
                       "%d seeded binding-operation sequences over the four exchange types (duplicates, several queues per key, unbinds, queue deletions, "
                       "argument/header tables of every scalar type, x-match all/any/absent/invalid, x- keys, nil values, nil tables); non-trivial = pair whose "
                       "pattern has a wildcard, or route case with >= 2 bindings in effect or a non-empty matched set; distinct = distinct case inputs"
                       % (pn, n_pairs_exh, len(pairs), len(routes)))
    by_type = {}
    for c in routes:
        by_type[str(c["ty"])] = by_type.get(str(c["ty"]), 0) + 1
    res.cov["generator_distribution"] = {"route_cases_by_exchange_type": by_type, "route_judge_verdicts": verdicts,
                                         "topic_pair_judge_verdicts": tv,
                                         "topic_pairs_matching": sum(1 for _, _, r in pairs if r == "1"),
                                         "route_cases_with_nonempty_match": sum(1 for c in routes if c["out"]["matched"]),
                                         "corpus_pairs": n_corpus_pairs, "corpus_routes": n_corpus_routes}
    res.cov["samples"] = ["|".join(rows[5]), "T|%s|%s|%s" % (pairs[-1][0].hex(), pairs[-1][1].hex(), pairs[-1][2]),
                          "R|" + json.dumps(routes[-1]), "R|" + json.dumps(routes[len(routes) // 2])]
    nbad = (len(bad_rows) + len(bad_pairs) + len(bad_routes)) if model_ok else 0
    res.cov["traces_validated_against_impl"] = (len(row_res) + len(pairs) + len(routes) - nbad) if model_ok else 0
    res.cov["exhaustive"] = False
    if b_outs is not None:
        npub = sum(1 for st in scripts for x in st if x[0] == "PUB")
        res.cov["broker_level"] = dict(scripts=len(scripts), steps=sum(len(x) for x in scripts), publishes=npub,
                                       model_disagreements=len(b_bad_model or []), judged_bad=len(b_judged),
                                       sample=broker_ops(scripts[2])[0])
        res.cov["evaluations"] += sum(len(x) for x in scripts)
        res.cov["traces_validated_against_impl"] += (len(scripts) - len(b_bad_model or [])) if model_ok else 0

    # ---- known finding F51: replay its witness on the real code
    f51 = [c for c in routes[:n_corpus_routes] if judge_route(c)[0] == "F51"]
    if f51:
        res.known_finding("F51", "a message without headers table is not routed to a headers binding whose argument table has nothing to match (x-match all alone), although an empty headers table is")

    for c in routes[:n_corpus_routes]:
        for i, op in enumerate(c["ops"]):
            a = table(op.get("args")) or {}
            xm = a.get(b"x-match")
            if xm and xm[0] == "bytes" and unhex(xm[1]) in (b"all", b"any") and i in c["out"]["errs"]:
                res.known_finding("F52", "NewBinding refuses an x-match argument that arrives as []byte (long string in the 0-9-1 table dialect): queue.bind answers 406")
                break

    # ---- decide
    corr_broken = model_ok and (bad_rows or bad_pairs or bad_routes or b_bad_model)
    tr_ok = gen_status.get("status") == "ok"
    if pr["ok"] and model_ok and tr_ok and not corr_broken and not judged_bad and not b_judged:
        return
    what = []
    if not tr_ok:
        # the obligation "the model's parameters are what the source says" is no longer shown: never fall back silently
        what.append("translator/cmd/routing no longer recognises the routing source, so Route/gen/RouteGen.v does not describe it: %s"
                    % gen_status.get("detail", gen_status))
    if not pr["ok"]:
        what.append("proof obligation no longer checks: %s: %s" % (pr.get("failed_file"), pr.get("error", "")[:500]))
    if not model_ok:
        what.append("model runner does not build: " + pr.get("runners_log", "")[-400:])
    if corr_broken:
        first = ("X|%d|%s|%s" % (bad_rows[0], pats[bad_rows[0]].hex(), row_res[bad_rows[0]]) if bad_rows else
                 "T|%s|%s|%s" % (pairs[bad_pairs[0]][0].hex(), pairs[bad_pairs[0]][1].hex(), pairs[bad_pairs[0]][2]) if bad_pairs else
                 "R|" + json.dumps(routes[bad_routes[0]]) if bad_routes else "")
        if b_bad_model and not (bad_rows or bad_pairs or bad_routes):
            first = "broker script %s, steps %s" % (broker_ops(scripts[b_bad_model[0][0]])[0], b_bad_model[0][1])
        what.append("correspondence routing model/implementation differs on %d exhaustive rows, %d pairs, %d route cases, %d broker scripts (first: %s)"
                    % (len(bad_rows), len(bad_pairs), len(bad_routes), len(b_bad_model or []), first[:600]))
    if judged_bad and pr["ok"] and tr_ok and not corr_broken:
        what.append("the implementation agrees with the proved model but the python judge objects (%d cases): the judge and the Coq spec differ" % len(judged_bad))
    # failing input: a route case first (it carries binding set + message), then topic pairs
    rb = [x for x in judged_bad if x[0] == "R"]
    tb = [x for x in judged_bad if x[0] == "T"]
    if rb:
        _, i, why = rb[0]
        c = shrink_route(exe, routes[i])
        why = judge_route(c)[1]
        res.violation(dict(kind="route", case={k: v for k, v in c.items() if k != "out"}, readable=describe_route(c), judge=why, broken=what,
                           translator=gen_status, replay_cmd="echo '<case json>' | harness/bin/routing replay-route"),
                      True, "routing deviates from the AMQP rules: %s; %s" % (why, describe_route(c)))
    elif b_judged:
        si = b_judged[0][0]
        st = shrink_broker(bexe, scripts[si])
        ob = run_broker_scripts(bexe, [st])[0]
        j = judge_broker(st, ob)
        res.violation(dict(kind="broker-script", steps=[list(x) for x in st], ops=broker_ops(st)[0], observed=ob, judge=j[1] if j else None,
                           broken=what, translator=gen_status,
                           readable=dict(operations=[" ".join(str(y) for y in x) for x in st[:(j[0] if j else len(st))]],
                                         message=" ".join(str(y) for y in st[j[0]]) if j else None),
                           replay_cmd="printf '%s\\n' ... | harness/bin/broker replay -rabbit=true -engine buntdb"),
                      True, "broker routes against the AMQP rules: %s; script: %s" % (j[1] if j else "?", [" ".join(str(y) for y in x) for x in st]))
    elif tb or row_fail:
        if row_fail:
            p, k, why = row_fail
        else:
            p, k, why = pairs[tb[0][1]][0], pairs[tb[0][1]][1], tb[0][2]
        res.violation(dict(kind="topic", pattern=p.decode("latin1"), key=k.decode("latin1"), pattern_hex=p.hex(), key_hex=k.hex(),
                           judge=why, broken=what, translator=gen_status,
                           readable=dict(exchange_type="topic", operations=["bind queue=q key=%r" % p.decode("latin1")],
                                         message="routing-key=%r" % k.decode("latin1")),
                           replay_cmd="harness/bin/routing replay-topic %s %s" % (p.hex(), k.hex())),
                      True, "topic pattern %r vs routing key %r: %s" % (p.decode("latin1"), k.decode("latin1"), why))
    else:
        first = None
        if corr_broken:
            first = ("R|" + json.dumps(routes[bad_routes[0]])) if bad_routes else None
        res.violation(dict(kind="obligation", broken=what, translator=gen_status, smallest_disagreeing_case=first),
                      False, "; ".join(what))


def run(res):
    # 1. the routing functions (binding / exchange packages) against the regenerated model and the AMQP rules
    run_routing(res)
    if res.violations or os.environ.get("VERIF_DEV_SKIP_BROKER"):
        return
    # 2. the topology around them in the running broker (declare / bind / unbind / delete / restart, then publish and
    #    get): sessions compared step by step with the broker model - whose matched_queues is the same routing function
    import brokercheck
    brokercheck.run(res, "C08", None, lambda se, stats: [], focus="routing", racy=False,
                    nontrivial=lambda se: any(st["op"].startswith("QB ") for st in se["steps"]))


def replay(path):
    r = json.load(open(path))
    exe, err = vlib.build_harness("routing")
    if exe is None:
        print(err); return 2
    if r.get("kind") == "route":
        c = replay_routes(exe, [r["case"]])[0]
        v, why = judge_route(c)
        print(json.dumps(describe_route(c), indent=1))
        print("AMQP rules verdict:", v, why)
        return 1 if v == "bad" else 0
    if r.get("kind") == "broker-script":
        bexe, berr = vlib.build_harness("broker")
        if bexe is None:
            print(berr); return 2
        st = [tuple(x[:4]) + ([tuple(kv) for kv in x[4]],) if x[0] in ("QB", "QU") else tuple(x) for x in r["steps"]]
        ob = run_broker_scripts(bexe, [st])[0]
        for a, b in zip(st, ob):
            print(" ".join(str(y) for y in a), "->", b)
        j = judge_broker(st, ob)
        print("AMQP rules verdict:", "bad: step %d: %s" % j if j else "ok")
        return 1 if j else 0
    if r.get("kind") == "topic":
        out = vlib.harness(exe, ["replay-topic", r["pattern_hex"], r["key_hex"]]).strip()
        p, k = unhex(r["pattern_hex"]), unhex(r["key_hex"])
        v, why = judge_topic(p, k, out.split("|")[3])
        print("implementation:", out, " pattern=%r key=%r" % (p, k))
        print("AMQP rules verdict:", v, why)
        return 1 if v == "bad" else 0
    print(json.dumps(r, indent=1))
    return 0
