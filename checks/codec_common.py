"""Shared machinery of the codec checks (C12, decoder part of C11): run the codec harness,
turn its canonical lines into Coq case terms, evaluate the model inside Coq (vm_compute)
and report where implementation and model differ."""
import json, os, re
import vlib
from vlib import log

KIND = {"table": "KdTable", "method": "KdMethod", "header": "KdHeader", "frame": "KdFrame", "message": "KdMessage",
        "closeerr": "KdMethod", "queue": "KdQueue", "exchange": "KdExchange", "binding": "KdBinding", "shortstr": "KdShortstr", "longstr": "KdLongstr"}
DIAL = {"091": "D091", "rabbit": "DRabbit"}
UNREP = re.compile(r"VNilTablePtr|NILTABLE|VUnknown|MUnknown")
STREAM_KINDS = {"table", "method", "closeerr", "header", "frame", "shortstr", "longstr"}

PRELUDE = ("From Coq Require Import List String NArith Bool.\nImport ListNotations.\n"
           "From GMQ Require Import Base.Bytes Codec.Desc Codec.Prim Codec.Value Codec.MethodCodec Codec.Header Codec.Frame "
           "Codec.Records Codec.Codec Run.CodecRun.\nOpen Scope string_scope.\nOpen Scope N_scope.\n")


class ELine:
    def __init__(self, line):
        f = line.rstrip("\n").split("\t")
        self.raw = line.rstrip("\n")
        self.idx, self.kind, self.d = int(f[1]), f[2], f[3]
        self.producible, self.exact = f[4] == "1", f[5] == "1"
        self.value, self.enc, self.godec = f[6], f[7], f[8]
        self.behaviour = f[9] if len(f) > 9 else "-"

    def go_bytes(self):
        return self.enc if re.fullmatch(r"[0-9a-f]*", self.enc) else None

    def roundtrip_ok(self):
        """The executable statement of C12 on the implementation alone: decode(encode v) = v, nothing left over."""
        if self.go_bytes() is None:
            return None  # not encodable: nothing to round-trip
        m = re.fullmatch(r"Ok (.*) rest=(-?\d+)", self.godec)
        return bool(m) and m.group(1) == self.value and m.group(2) in ("0", "-1") and self.behaviour_ok()

    def behaviour_ok(self):
        """A stored binding restored from its bytes routes like the binding it was made from (same answers on every probe)."""
        if self.behaviour == "-":
            return True
        a, _, b = self.behaviour.partition("/")
        return a == b

    def coq(self):
        if UNREP.search(self.value):
            return None
        gb = self.go_bytes()
        go = 'Some "%s"' % gb if gb is not None else "None"
        return "(%s, %s, %s, %s, %s)" % (KIND[self.kind], DIAL[self.d], self.value, go, "true" if self.exact else "false")

    def as_dcase(self):
        """The Go decoder's own reading of the encoder's output, as a decode case."""
        gb = self.go_bytes()
        if gb is None:
            return None
        m = re.fullmatch(r"(Ok|Err|Panic|ErrPattern) (.*) rest=(-?\d+)", self.godec)
        if not m:
            return None
        return DLine("D\t%d\t%s\t%s\t%s\t%s\t%s\t%s\t0\tgo-encoded" % (self.idx, self.kind, self.d, gb, m.group(1), m.group(2), m.group(3)))


class DLine:
    def __init__(self, line):
        f = line.rstrip("\n").split("\t")
        self.raw = line.rstrip("\n")
        self.idx, self.kind, self.d, self.hex = int(f[1]), f[2], f[3], f[4]
        self.cls, self.value, self.rest, self.alloc, self.mut = f[5], f[6], int(f[7]), int(f[8]), f[9]

    def coq(self):
        if self.cls == "ErrPattern" or UNREP.search(self.value):
            return None
        if self.cls == "Ok":
            rest = "(Some %d)" % self.rest if self.rest >= 0 else "None"
            e = "XOk (%s) %s" % (self.value, rest)
        elif self.cls == "Err":
            e = "XErr"
        else:
            e = "XPanic"
        return '(%s, %s, "%s", %s)' % (KIND[self.kind], DIAL[self.d], self.hex, e)


def parse_lines(text):
    es, ds = [], []
    for l in text.splitlines():
        if l.startswith("E\t"):
            es.append(ELine(l))
        elif l.startswith("D\t"):
            ds.append(DLine(l))
    return es, ds


def parse_pairs(out, name):
    m = re.search(re.escape(name) + r"\s*=\s*(.*?)\n\s*:\s", out, re.S)
    if not m:
        raise vlib.Infra("cannot find %s in coq output:\n%s" % (name, out[-2000:]))
    return [(int(a), int(b)) for a, b in re.findall(r"\(\s*(\d+)\s*(?:%nat)?\s*,\s*(\d+)\s*\)", re.sub(r"\s+", " ", m.group(1)))]


def _eval_e(args):
    tag, part, fn = args
    text = PRELUDE + "Definition ecs : list ecase := [\n%s\n].\nDefinition ME := Eval vm_compute in %s ecs.\nPrint ME.\n" % (";\n".join(t for _, t in part), "e_mismatches" + fn)
    out = vlib.coq_eval(tag, text)
    return [part[int(m.replace("%nat", ""))][0] for m in vlib.parse_coq_list(out, "ME")], {}


def _eval_d(args):
    tag, part, fn = args
    text = PRELUDE + ("Definition dcs : list dcase := [\n%s\n].\nDefinition MD := Eval vm_compute in %s dcs.\nPrint MD.\n"
                      "Definition AL := Eval vm_compute in d_allocs dcs.\nPrint AL.\n") % (";\n".join(t for _, t in part), "d_mismatches" + fn)
    out = vlib.coq_eval(tag, text)
    return [part[int(m.replace("%nat", ""))][0] for m in vlib.parse_coq_list(out, "MD")], {part[i][0]: n for i, n in parse_pairs(out, "AL")}


def eval_cases(elines, dlines, tag, chunk=160, workers=12, grammar=False):
    """Returns (bad_e, bad_d, allocs, skipped): indices into elines / dlines where model and implementation differ,
    {dline index: bytes the model says were committed to a forged length}. The model is evaluated inside Coq
    (vm_compute), several coqc processes side by side."""
    from concurrent.futures import ThreadPoolExecutor
    et = [(i, e.coq()) for i, e in enumerate(elines)]
    dt = [(i, d.coq()) for i, d in enumerate(dlines)]
    skipped = sum(1 for _, t in et + dt if t is None)
    et = [(i, t) for i, t in et if t is not None]
    dt = [(i, t) for i, t in dt if t is not None]
    fn = "_grammar" if grammar else ""   # grammar=True: compare with the specifications instead of the regenerated tables
    jobs = [(_eval_e, ("%s-e%d" % (tag, s), et[s:s + chunk], fn)) for s in range(0, len(et), chunk)]
    jobs += [(_eval_d, ("%s-d%d" % (tag, s), dt[s:s + chunk], fn)) for s in range(0, len(dt), chunk)]
    bad_e, bad_d, allocs = [], [], {}
    with ThreadPoolExecutor(max_workers=workers) as ex:
        futs = [(f, ex.submit(f, a)) for f, a in jobs]
        for f, fu in futs:
            bad, al = fu.result()
            if f is _eval_e:
                bad_e += bad
            else:
                bad_d += bad
                allocs.update(al)
    return sorted(bad_e), sorted(bad_d), allocs, skipped


def model_decode_text(kind, d, hx, grammar=False):
    """What the model (regenerated tables, or the specifications when grammar=True) makes of one byte string."""
    text = PRELUDE + 'Definition R := Eval vm_compute in decode_any %s %s %s (H "%s").\nPrint R.\n' % ("T_grammar" if grammar else "T_code", KIND[kind], DIAL[d], hx)
    out = vlib.coq_eval("one", text)
    m = re.search(r"R\s*=\s*(.*?)\n\s*:\s", out, re.S)
    return re.sub(r"\s+", " ", m.group(1))[:4000] if m else out[-500:]


def model_encode_text(e, grammar=False):
    text = PRELUDE + 'Definition R := Eval vm_compute in encode_case %s %s.\nPrint R.\n' % ("T_grammar" if grammar else "T_code", e.coq())
    out = vlib.coq_eval("onee", text)
    m = re.search(r"R\s*=\s*(.*?)\n\s*:\s", out, re.S)
    if not m:
        return None
    body = re.sub(r"\s+", " ", m.group(1))
    if body.startswith("None"):
        return None
    nums = re.findall(r"\d+", body)
    return "".join("%02x" % int(n) for n in nums)


def corpus_lines(exe, prop):
    """corpus/<prop>/codec.cases: lines `<kind> <dialect> <hex>  # comment`, decoded afresh by the implementation."""
    p = os.path.join(vlib.VERIF, "corpus", prop, "codec.cases")
    out = []
    if os.path.exists(p):
        for l in open(p):
            l = l.split("#")[0].strip()
            if not l:
                continue
            kind, d, hx = l.split()
            out.append(vlib.harness(exe, ["dec", kind, d, hx]).strip())
    return out


def alloc_shapes():
    """(longstr_alloc, frame_alloc) as regenerated into TagsGen.v."""
    s = open(os.path.join(vlib.COQ, "Codec/gen/TagsGen.v")).read()
    a = re.search(r"longstr_alloc : alloc_style := ([A-Za-z0-9 ]+)\.", s)
    b = re.search(r"frame_alloc : frame_alloc_style := ([A-Za-z0-9 ]+)\.", s)
    return (a.group(1) if a else "?"), (b.group(1) if b else "?")


def harness_maxlen():
    """Largest forged length the mutator may write: the full 2^32-1 once the readers no longer allocate from it."""
    a, b = alloc_shapes()
    return 0xFFFFFFFF if a.startswith("AllocChunked") and b.startswith("FrameChunked") else 0x100000


def distribution(elines, dlines):
    dist = {}
    for e in elines:
        k = "E:%s:%s:%s" % (e.kind, e.d, "producible" if e.producible else "writer-only")
        dist[k] = dist.get(k, 0) + 1
    for d in dlines:
        k = "D:%s:%s" % (d.kind, d.cls)
        dist[k] = dist.get(k, 0) + 1
        for m in d.mut.split("+"):
            dist["D:mutation:" + m] = dist.get("D:mutation:" + m, 0) + 1
    return dict(sorted(dist.items()))


class PLine:
    """Independent peer exchange (amqp091-go <-> /repo's amqp package): one method or content header that crossed the pipe."""
    def __init__(self, line):
        f = line.rstrip("\n").split("\t")
        self.raw = line.rstrip("\n")
        self.idx, self.dir, self.kind, self.hex, self.sent, self.received = int(f[1]), f[2], f[3], f[4], f[5], f[6]

    def agrees(self):
        return self.kind in ("method", "header") and self.sent == self.received

    def as_dcase(self):
        if self.kind not in ("method", "header") or UNREP.search(self.sent) or self.sent.startswith("ERR"):
            return None
        return DLine("D\t%d\t%s\trabbit\t%s\tOk\t%s\t0\t0\tpeer-%s" % (self.idx, self.kind, self.hex, self.sent, self.dir))


def peer_lines(exe, seed, rounds):
    out = vlib.harness(exe, ["peer", "-seed", str(seed), "-n", str(rounds)], timeout=120)
    return [PLine(l) for l in out.splitlines() if l.startswith("P\t")]


def unrecognised(tr, files):
    """{generated file: detail} for the translated sources whose shape the translator did not understand."""
    return {g: st.get("detail", "") for g, st in tr["files"].items() if g in files and st.get("status") != "ok"}


def report_unrecognised(res, unrec, searched):
    """Policy: an unrecognised source shape never falls back silently to the hand model / the grammar. After the
    failing-input search found nothing, it is reported as a violation that names the functions and the obligation."""
    funcs = sorted(set(re.findall(r"([A-Za-z0-9_.]+(?:\.Read|\.Write|Marshal|Unmarshal|ReadMethod|WriteMethod|readValue091|readValueRabbit|writeValue091|writeValueRabbit|ReadLongstr|ReadFrame|readBytes)[A-Za-z0-9_]*)",
                                  " ".join(unrec.values()))))
    what = "; ".join("%s: %s" % (g, d[:500]) for g, d in sorted(unrec.items()))
    res.violation(dict(kind="unrecognised-shape", obligation="generated = model: the regenerated description of these functions could not be "
                       "derived from the source, so the theorems no longer speak about the code that exists",
                       functions=funcs, generated_files=sorted(unrec), detail=unrec, failing_input_search=searched),
                  False, "translator does not recognise the source shape (obligation generated = model not established): " + what)
