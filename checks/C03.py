"""C03 - per-queue FIFO order, also for requeued messages."""
import json, re
import vlib
from vlib import log

CHECKER = "make -C /verif/coq Props/C03.vo (full .vo build of the cone) && coqc -Q /verif/coq GMQ Props/C03.v"


def sq_line_to_coq(line):
    sz, ops, outs = line.split("|")
    if outs.startswith("PANIC"):
        return None
    def op(o):
        return {"P": "OPush %s" % o[1:], "H": "OPushHead %s" % o[1:], "O": "OPop", "I": "OHead", "L": "OLen", "X": "OPurge"}[o[0]]
    def out(o):
        if o == "_": return "RNone"
        if o == "-": return "RItem None"
        if o[0] == "l": return "RLen %s" % o[1:]
        return "RItem (Some %s)" % o
    return "(%s, [%s], [%s])" % (sz, "; ".join(op(o) for o in ops.split()), "; ".join(out(o) for o in outs.split()))


def eval_sq_cases(lines, tag):
    """Return indices (into lines) where the model's outputs differ from the implementation's."""
    bad = []
    terms, idx = [], []
    for i, l in enumerate(lines):
        t = sq_line_to_coq(l)
        if t is None:
            bad.append(i)
        else:
            terms.append(t); idx.append(i)
    CH = 1500
    for s in range(0, len(terms), CH):
        chunk = terms[s:s + CH]
        text = ("From Coq Require Import List NArith.\nImport ListNotations.\n"
                "From GMQ Require Import Data.SafeQueue Run.SafeQueueRun.\nOpen Scope N_scope.\n"
                "Definition cases : list sq_case := [\n%s\n].\n"
                "Definition M := Eval vm_compute in sq_mismatches cases.\nPrint M.\n") % (";\n".join(
                    # sizes and lengths are nat: mark them
                    re.sub(r"^\((\d+),", r"(\1%nat,", re.sub(r"RLen (\d+)", r"RLen \1%nat", c)) for c in chunk))
        out = vlib.coq_eval(tag, text)
        for m in vlib.parse_coq_list(out, "M"):
            bad.append(idx[s + int(re.sub(r'%\w+$', '', m.strip()))])
    return sorted(bad)


def list_spec(ops):
    """The abstract list queue, for judging a disagreeing case (check_C03a)."""
    l, outs = [], []
    for o in ops:
        if o[0] == "P": l.append(o[1:]); outs.append("_")
        elif o[0] == "H": l.insert(0, o[1:]); outs.append("_")
        elif o == "O": outs.append(l.pop(0) if l else "-")
        elif o == "I": outs.append(l[0] if l else "-")
        elif o == "L": outs.append("l%d" % len(l))
        elif o == "X": l = []; outs.append("_")
    return outs


def shrink(exe, sz, ops):
    """Delta-debug the op list while the implementation still deviates from the list spec."""
    def fails(o):
        out = vlib.harness(exe, ["replay", str(sz)] + o).strip()
        got = out.split("|")[2]
        return got.startswith("PANIC") or got.split() != list_spec(o)
    if not fails(ops):
        return ops
    n = 2
    while len(ops) >= 2:
        chunk = max(1, len(ops) // n)
        reduced = False
        for i in range(0, len(ops), chunk):
            cand = ops[:i] + ops[i + chunk:]
            if cand and fails(cand):
                ops = cand; n = max(n - 1, 2); reduced = True
                break
        if not reduced:
            if chunk == 1:
                break
            n = min(n * 2, len(ops))
    return ops


def run_ring(res):
    quick = res.tier == "quick"
    tr = vlib.run_translator("safequeue")
    gen_status = tr["files"].get("Data/gen/SafeQueueGen.v", {})
    res.cov["translator"] = {"Data/gen/SafeQueueGen.v": gen_status,
                             "shapes": {k: v for k, v in tr["shapes"].items() if k.startswith("safequeue/")}}
    pr = vlib.coq_check_props("Props/C03.v", runners=["Run/SafeQueueRun.v"])
    res.add_proof(pr, CHECKER)
    res.cov["trusted_base"] = vlib.TRUSTED_BASE_COMMON + [
        "modelled, not verified: Go slices/nil as option lists; SafeQueue's RWMutex makes each method atomic (one label each); length is a nat (no uint64 wrap)",
    ]
    res.assumptions += ["SafeQueue methods are atomic under their mutex (DirtyPop/HeadItem callers hold it)",
                        "queue length < 2^64"]
    exe, err = vlib.build_harness("safequeue")
    if exe is None:
        raise vlib.Infra("harness does not build against /repo (is the tree compilable?):\n" + err)
    # correspondence T1 (API level)
    args = ["run", "-seed", str(res.seed), "-n", "400" if quick else "6000", "-len", "70" if quick else "220",
            "-exhaustive", "5" if quick else "7"]
    corpus = [l.strip() for l in open(vlib.VERIF + "/corpus/C03/safequeue.cases")] if \
        __import__("os").path.exists(vlib.VERIF + "/corpus/C03/safequeue.cases") else []
    corpus_lines = []
    for c in corpus:
        if not c or c.startswith("#"): continue
        sz, ops = c.split("|")[:2]
        corpus_lines.append(vlib.harness(exe, ["replay", sz] + ops.split()).strip())
    lines = corpus_lines + [l for l in vlib.harness(exe, args).splitlines() if l.strip()]
    bad = eval_sq_cases(lines, "C03") if pr_model_ok(pr) else None
    res.cov["evaluations"] = len(lines)
    distinct = set()
    depth_hist = {}
    for l in lines:
        sz, ops, outs = l.split("|")
        o = ops.split()
        # non-trivial: the run crosses a shard boundary (more than sz items held at some point) or re-inserts at the head
        depth, mx = 0, 0
        for x in o:
            if x[0] in "PH": depth += 1
            elif x == "O" and depth > 0: depth -= 1
            elif x == "X": depth = 0
            mx = max(mx, depth)
        if mx > int(sz) or any(x[0] == "H" for x in o):
            distinct.add(l)
        b = "depth<=sz" if mx <= int(sz) else ("depth<=3sz" if mx <= 3 * int(sz) else "depth>3sz")
        depth_hist[b] = depth_hist.get(b, 0) + 1
    res.cov["distinct_nontrivial"] = len(distinct)
    res.cov["rule"] = ("API-level differential runs of safequeue.SafeQueue against the Coq ring model (vm_compute): all op sequences over "
                       "{push,push-head,pop,purge} up to length %s for shard sizes 1..3 plus seeded random sequences (shard sizes 1..15); "
                       "non-trivial = max depth exceeds the shard size or a head re-insertion occurs; distinct = distinct case lines"
                       % ("5" if quick else "7"))
    res.cov["generator_distribution"] = depth_hist
    res.cov["samples"] = lines[:2] + lines[-2:]
    res.cov["traces_validated_against_impl"] = len(lines) - (len(bad) if bad else 0)
    res.cov["exhaustive"] = False
    decide(res, pr, bad, lines, exe, gen_status)
    return dict(cov=dict(res.cov))


def pr_model_ok(pr):
    return pr["runners_ok"]


def decide(res, pr, bad, lines, exe, gen_status):
    if pr["ok"] and bad == [] :
        return
    # something broke: search for a failing input = a case where the implementation deviates from the FIFO list spec
    failing = None
    for l in lines:
        sz, ops, outs = l.split("|")
        if outs.startswith("PANIC") or outs.split() != list_spec(ops.split()):
            failing = (int(sz), ops.split(), outs)
            break
    what = []
    if not pr["ok"]:
        what.append("proof obligation no longer checks: %s: %s" % (pr.get("failed_file"), pr.get("error", "")[:400]))
    if bad:
        what.append("correspondence safequeue model/implementation differs on %d cases (first: %s)" % (len(bad), lines[bad[0]]))
    if bad is None:
        what.append("model runner does not build")
    if failing:
        sz, ops, outs = failing
        ops = shrink(exe, sz, ops)
        got = vlib.harness(exe, ["replay", str(sz)] + ops).strip().split("|")[2]
        res.violation(dict(kind="safequeue-ops", shard_size=sz, ops=ops, implementation_outputs=got,
                           fifo_list_spec_outputs=" ".join(list_spec(ops)), broken=what,
                           replay_cmd="harness/bin/safequeue replay %d %s" % (sz, " ".join(ops))),
                      True, "safequeue deviates from FIFO list: shard size %d ops %s" % (sz, " ".join(ops)))
    else:
        res.violation(dict(kind="obligation", broken=what, translator=gen_status,
                           smallest_disagreeing_case=lines[bad[0]] if bad else None), False, "; ".join(what))


def replay(path):
    r = json.load(open(path))
    if r.get("kind") == "queueswap-case":
        import C19
        return C19.replay(path)
    if r.get("kind", "").startswith("broker") or r.get("kind") in ("correspondence",):
        import brokercheck, monitors
        return brokercheck.replay(path, monitors.monitor_c03)
    exe, err = vlib.build_harness("safequeue")
    if r.get("kind") == "safequeue-ops":
        out = vlib.harness(exe, ["replay", str(r["shard_size"])] + r["ops"]).strip()
        print("implementation:", out)
        print("fifo list spec:", " ".join(list_spec(r["ops"])))
        return 0 if out.split("|")[2].split() == list_spec(r["ops"]) else 1
    print(json.dumps(r, indent=1))
    return 0


def run(res):
    """(a) ring refinement at API level, then (b)(c) order clauses at broker level."""
    import brokercheck, monitors
    ring = run_ring(res)
    if res.violations:
        return
    ring_cov = ring["cov"]
    # broker level: T1 correspondence + order monitor; its coverage is merged with the ring's
    brokercheck.run(res, "C03", ["Props/C03.v", "Props/C03_history.v"], monitors.monitor_c03, quick_n=(70, 36), racy=True)
    res.cov["ring_api_level"] = {k: ring_cov.get(k) for k in ("evaluations", "distinct_nontrivial", "generator_distribution", "samples", "translator")}
    res.cov["evaluations"] += ring_cov.get("evaluations", 0)
    res.cov["distinct_nontrivial"] += ring_cov.get("distinct_nontrivial", 0)
    res.cov["traces_validated_against_impl"] += ring_cov.get("traces_validated_against_impl", 0)
    res.cov["rule"] = "ring: " + ring_cov.get("rule", "") + " || broker: " + res.cov["rule"]
    res.cov["obligations"] = res.cov["obligations"] // 2 if False else res.cov["obligations"]
    # order must also hold when the queue is deeper than its in-memory limit: the overflow / reload path of queue.go
    vlib.also_run(res, "C19", why="queue/queue.go is among C03's anchors: order across the in-memory limit and the reload from the store")
