"""C18 - every synchronous request gets exactly one correct reply."""
import brokercheck, monitors


def run(res):
    brokercheck.run(res, "C18", "Props/C18.v", monitors.monitor_c18, nontrivial=lambda se: True)


def replay(path):
    return brokercheck.replay(path, monitors.monitor_c18)
