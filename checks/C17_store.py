"""C17, isolation half at the store (library; the lead's checks/C17.py calls run_store_isolation(res)).
Also runnable on its own: ./check C17_store"""
import json, os
import vlib
import stores_lib as sl

CHECKER = "make -C /verif/coq Props/C17_store.vo && coqc -Q /verif/coq GMQ Props/C17_store.v"


def run_store_isolation(res):
    """Adds to `res` (the caller's Result, property C17): the obligations of Props/C17_store.v, the msgstorage
    correspondence on -iso cases (views of every queue after every operation), the isolation judge, the F21 witness."""
    quick = res.tier == "quick"
    seed = res.seed
    plan = [("rec", dict(seed=seed + 10, n=90 if quick else 800, len=10 if quick else 16, safe=False, iso=True)),
            ("rec", dict(seed=seed + 11, n=120 if quick else 800, len=10 if quick else 16, safe=True, iso=True)),
            ("badger", dict(seed=seed + 12, n=14 if quick else 80, len=8, safe=True, iso=True)),
            ("bunt", dict(seed=seed + 13, n=10 if quick else 100, len=8, safe=True, iso=True))]
    res.cov["trusted_base"] = (res.cov.get("trusted_base") or vlib.TRUSTED_BASE_COMMON) + [
        "store half of C17: the engine as an ordered byte-keyed map; isolation is stated about the entries under a queue's scan prefix (engine and the three pending maps)"]
    sl.run_msg_pipeline(res, res.prop, "Props/C17_store.v", CHECKER, {"phantom", "durable", "length", "from"}, plan, iso=True,
                        corpus_dir=os.path.join(vlib.VERIF, "corpus", "C17"), tag="C17_store")


def run(res):
    run_store_isolation(res)


def replay(path):
    r = json.load(open(path))
    if r.get("kind") == "msg-ops":
        return sl.replay_msg(r)
    print(json.dumps(r, indent=1))
    return 0
