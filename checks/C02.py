"""C02 - see Props/C02.v, Props/C02_history.v and monitors.monitor_c02."""
import shutil
import brokercheck, monitors
import vlib


def _sub_replay(path):
    """replays of the component checks this check also runs"""
    import json
    k = json.load(open(path)).get("kind", "")
    if k == "queueswap-case":
        import C19
        return C19.replay(path)
    if k == "safequeue-ops":
        import C03
        return C03.replay(path)
    if k == "msg-ops":
        import stores_lib
        return stores_lib.replay_msg(json.load(open(path)))
    return None


def kill_witness(res):
    """Known finding F73, re-confirmed on the real msgstorage over the real engine on every run: an acknowledgement is
    durable only after the store's next tick, so a kill inside the tick window brings an acknowledged message back.
    (The model says the same: LRestart with a delete pending - Example restart_resurrects_acked in Props/C02_history.v.)"""
    import stores_lib as sl
    work = vlib.workdir("C02-kill")
    try:
        exe = sl.build()
        hits = []
        for eng in ("rec", "badger"):
            line = sl.run_harness(exe, "msg", eng, lines=["A:100:1:1:61 T D:100:1:1:61 K R:61:0 DUMP"], work=work)[0]
            c = sl.Case("msg", line)
            if len(c.outs) >= 5 and c.outs[4].startswith("m:100:"):
                hits.append(eng)
        res.cov["kill_witness_F73"] = {"ops": "Add 100 (persistent, queue a); persist; Del 100; kill; recover queue a", "message_came_back_on": hits}
        if hits:
            res.known_finding("F73", "an acknowledgement reaches the store with the next 20 ms tick: add, tick, delete (the ack), kill, restart -> "
                              "the acknowledged message is recovered and would be delivered again (engines: %s)" % ", ".join(hits))
    except Exception as ex:   # the witness is an extra: its failure to run must not look like a verdict
        res.cov["kill_witness_F73"] = {"error": str(ex)[:300]}
    finally:
        shutil.rmtree(work, ignore_errors=True)


def run(res):
    kill_witness(res)
    brokercheck.run(res, "C02", ["Props/C02.v", "Props/C02_history.v"], monitors.monitor_c02, focus="restart")
    # "each message to at most one consumer at a time" rests on Queue.PopQos inspecting and removing the head in one critical
    # section (a generated lock fact of the queue component), "never again after a restart" on what the store does with a
    # delete (the store component): both are re-checked here
    vlib.also_run(res, "C19", why="queue/queue.go is among C02's anchors: lock discipline of Pop / PopQos and the overflow path")
    vlib.also_run(res, "C04", "run_core", why="msgstorage/msgstorage.go is among C02's anchors: a deleted key is not written back")


def replay(path):
    r = _sub_replay(path)
    if r is not None:
        return r
    return brokercheck.replay(path, monitors.monitor_c02)
