"""C02 - see Props/C02.v and monitors.monitor_c02."""
import brokercheck, monitors


def run(res):
    brokercheck.run(res, "C02", ["Props/C02.v", "Props/C02_history.v"], monitors.monitor_c02, focus="restart")


def replay(path):
    return brokercheck.replay(path, monitors.monitor_c02)
