"""Generic broker-level check: theorem obligations + T1 correspondence (exact sessions, model = implementation
step by step) + property monitors on exact and racy sessions + failing-input search. Used by the per-property
checks C01, C02, C05, C06, C07, C10, C13, C14, C15, C16, C17, C18, C20."""
import json, os, re, time
import vlib, brokerlib
from vlib import log

CHECKER_TMPL = "make -C /verif/coq Props/%s.vo (full .vo build of the cone) && coqc -Q /verif/coq GMQ Props/%s.v"

TRUSTED_BROKER = [
    "extraction of Run/BrokerScript.run_text_session to OCaml with ExtrOcamlBasic only (bool, option, list, prod, unit, sumbool mapped to OCaml's; "
    "N, Z, positive, string, ascii extracted as Coq datatypes; no Extract Constant / Extract Inductive of our own); ocaml/driver.ml is trusted glue "
    "(string conversion and I/O); a sample of every run is re-evaluated inside Coq with vm_compute and must agree",
    "modelled, not verified: goroutine scheduling as labels (one label = one client frame handled, or one turn of a consumer / queue loop / "
    "auto-delete / persist / relay / confirm-tick goroutine); handlers atomic at the granularity of Broker/Model.v; Go channels of capacity 1 as "
    "boolean tokens; TCP as an ordered reliable stream; the key/value engines as maps with atomic durable batches; "
    "messages of the sessions carry only delivery-mode and message-id properties",
    "hooks in /repo under build tag verif (verifhook counters, snapshot exports) are add-only instrumentation",
]


# ------------------------------------------------------------------ snapshot parsing
def parse_snap(lines):
    st = {"conns": {}, "chans": {}, "queues": {}, "exchanges": {}, "server": None, "raw": lines}
    for l in lines:
        if l.startswith("conn "):
            m = re.match(r"conn (\d+) (?:st=(\S+) )?qos=(\S+)", l)
            st["conns"][int(m.group(1))] = {"stage": m.group(2) or "o", "qos": [int(x) for x in m.group(3).split("/")]}
        elif l.startswith("ch "):
            m = re.match(r"ch (\d+)\.(\d+) st=(\d) flow=(\d) dtag=(\d+) ctag=(\d+) confirm=(\d) cur=(\d) qos=(\S+) cqos=(\S+) consumers=\[(.*?)\] unacked=\[(.*?)\]$", l)
            if not m:
                continue
            cons = []
            for c in m.group(11).split():
                p = c.split(":")
                cons.append({"tag": p[0], "queue": p[1], "noack": p[2] == "1", "status": int(p[3]),
                             "own": [int(x) for x in p[4].split("/")] if len(p) > 4 else None})
            un = []
            for u in m.group(12).split():
                p = u.split(":")
                un.append({"tag": int(p[0]), "ctag": p[1], "queue": p[2], "uid": p[3]})
            st["chans"][(int(m.group(1)), int(m.group(2)))] = {
                "st": int(m.group(3)), "flow": m.group(4) == "1", "dtag": int(m.group(5)), "ctag": int(m.group(6)),
                "confirm": m.group(7) == "1", "cur": m.group(8) == "1", "qos": [int(x) for x in m.group(9).split("/")],
                "cqos": [int(x) for x in m.group(10).split("/")], "consumers": cons, "unacked": un}
        elif l.startswith("queue "):
            m = re.match(r"queue (\S+) ready=\[(.*?)\] len=(-?\d+) consumers=\[(.*?)\] active=(\d) excl=(\d) ad=(\d) dur=(\d) owner=(\d+) cexcl=(\d) m=(-?\d+)/(-?\d+)/(-?\d+)$", l)
            if not m:
                continue
            st["queues"][m.group(1)] = {"ready": m.group(2).split(), "len": int(m.group(3)), "consumers": m.group(4).split(),
                                        "active": m.group(5) == "1", "excl": m.group(6) == "1", "ad": m.group(7) == "1",
                                        "dur": m.group(8) == "1", "owner": int(m.group(9)), "cexcl": m.group(10) == "1",
                                        "m": (int(m.group(11)), int(m.group(12)), int(m.group(13)))}
        elif l.startswith("exchange "):
            m = re.match(r"exchange (\S*) type=(\d) dur=(\d) ad=(\d) int=(\d) bindings=\[(.*?)\]$", l)
            if m:
                st["exchanges"][m.group(1)] = {"type": int(m.group(2)), "bindings": m.group(6).split()}
        elif l.startswith("server m="):
            st["server"] = tuple(int(x) for x in l[len("server m="):].split("/"))
    return st


def frames_of(step):
    """[(conn, chan, name, args)]"""
    out = []
    for f in step["frames"]:
        m = re.match(r"(\d+)\.(\d+):([a-zA-Z.\-]+)(?:\((.*)\))?(.*)$", f)
        if not m:
            out.append((0, 0, f, [], ""))
            continue
        args = m.group(4).split(",") if m.group(4) is not None else []
        out.append((int(m.group(1)), int(m.group(2)), m.group(3), args, m.group(5) or ""))
    return out


# ------------------------------------------------------------------ the generic run
def run(res, prop, props_v, monitor, quick_n=(110, 36), thorough_n=(1500, 60), racy=True, gen_filter=None,
        extra_obligations=None, corpus_dir=None, nontrivial=None, translators=("broker",), focus=""):
    quick = res.tier == "quick"
    n_exact, steps = quick_n if quick else thorough_n
    t0 = time.time()
    tr = {"files": {}, "shapes": {}}
    have_tr = [t for t in translators if os.path.isdir(os.path.join(vlib.TRANSLATOR, "cmd", t))]
    if have_tr:
        tr = vlib.run_translator(have_tr)
    res.cov["translator"] = {"files": tr["files"], "functions_hashed": len(tr["shapes"])}
    if props_v is None:
        # sessions only (the property's theorems are checked by the caller): the model runner must still build
        pr = vlib.coq_check_props("Props/C16.v", runners=["Run/BrokerScript.v"])
        pr = dict(pr, ok=True) if pr.get("runners_ok") else pr
    else:
        more = []
        if isinstance(props_v, (list, tuple)):
            props_v, more = props_v[0], list(props_v[1:])
        pr = vlib.coq_check_props(props_v, runners=["Run/BrokerScript.v"])
        res.add_proof(pr, CHECKER_TMPL % (prop, prop))
        for pv in more:
            # further property files of the same property (theorems over whole histories)
            pr2 = vlib.coq_check_props(pv)
            res.add_proof(pr2, CHECKER_TMPL % (prop, prop) + " && coqc -Q /verif/coq GMQ " + pv)
            if pr["ok"] and not pr2["ok"]:
                pr["ok"], pr["failed_file"], pr["error"] = False, pr2.get("failed_file"), pr2.get("error", "")
        if res.tier == "thorough" and pr["ok"]:
            # forbidden-word grep over the cone of the property file and an independent re-check of the compiled
            # files (coqchk), which also lists the axioms they rely on
            import stores_lib
            probs = stores_lib.thorough_extras(res, props_v)
            for pv in more:
                probs = (probs or []) + (stores_lib.thorough_extras(res, pv) or [])
            if probs:
                pr["ok"], pr["failed_file"], pr["error"] = False, props_v, "; ".join(probs)
    res.cov["trusted_base"] = vlib.TRUSTED_BASE_COMMON + TRUSTED_BROKER
    exe, err = vlib.build_harness("broker")
    if exe is None:
        raise vlib.Infra("harness does not build against /repo (is the tree compilable with -tags verif?):\n" + err)
    problems = []       # (kind, session, step index, description)
    if not pr["ok"]:
        problems.append(("obligation", None, None, "proof obligation no longer checks: %s: %s" % (pr.get("failed_file"), pr.get("error", "")[:600])))
    if not pr["runners_ok"]:
        raise_or = "model runner does not build: " + pr.get("runners_log", "")[-800:]
        problems.append(("obligation", None, None, raise_or))
    # ---- sessions
    sessions, crashes = [], []
    cdir = corpus_dir or os.path.join(vlib.VERIF, "corpus", prop)
    corpus_sessions = []
    corpus_racy = []
    if os.path.isdir(cdir):
        for fn in sorted(os.listdir(cdir)):
            if fn.endswith(".session") or fn.endswith(".racy"):
                txt = [l.strip() for l in open(os.path.join(cdir, fn)) if l.strip() and not l.startswith("#")]
                cfg = {"rabbit": True, "engine": "buntdb"}
                if txt and txt[0].startswith("CFG"):
                    for kv in txt[0].split()[1:]:
                        k, v = kv.split("=")
                        cfg[k] = (v == "1") if k == "rabbit" else v
                    txt = txt[1:]
                o, e = brokerlib.replay_script(exe, cfg, txt)
                if o is None:
                    crashes.append(dict(session={"id": fn, "cfg": cfg, "steps": [], "crashed_at": "corpus " + fn}, stderr=e))
                else:
                    o["id"] = "corpus:" + fn
                    o["kind"] = "exact" if fn.endswith(".session") else "racy"
                    o["ended"] = True
                    (corpus_sessions if fn.endswith(".session") else corpus_racy).append(o)
    ss, cr = brokerlib.gen_sessions(exe, res.seed, n_exact if not focus else n_exact - n_exact // 2, steps, kind="exact")
    crashes += cr
    if focus:
        # half of the sessions with the op mix biased towards the property's mechanism
        ss2, cr1 = brokerlib.gen_sessions(exe, res.seed + 104729, n_exact // 2, steps, kind="exact", focus=focus)
        for x in ss2:
            x["id"] = x["id"] + "-" + focus
        ss += ss2
        crashes += cr1
    exact = corpus_sessions + [s for s in ss if s["ended"]]
    racy_sessions = list(corpus_racy)
    if racy:
        rs, cr2 = brokerlib.gen_sessions(exe, res.seed + 7919, max(20, n_exact // 3), steps, kind="racy", focus=focus)
        crashes += cr2
        racy_sessions += [s for s in rs if s["ended"]]
    # ---- model evaluation (exact sessions)
    validated = 0
    sched_dep = 0
    if pr["runners_ok"]:
        preds = brokerlib.eval_sessions_ocaml(exact)
        disagree = []
        for se, pd in zip(exact, preds):
            d = brokerlib.first_diff(se["steps"], pd)
            if d is None:
                validated += 1
            elif d[1].startswith("schedule:"):
                # compared up to the step where the scheduler chose; the rest of the session is the monitor's
                sched_dep += 1
            else:
                disagree.append((se, d))
        # a disagreement counts only if it reproduces twice with a tenfold settle time
        for se, d in disagree:
            ops = [st["op"] for st in se["steps"]]
            reproduced = 0
            for attempt in range(2):
                o, e = brokerlib.replay_script(exe, se["cfg"], ops, settle=3)
                if o is None:
                    reproduced += 1
                    continue
                pd2 = brokerlib.eval_sessions_ocaml([o])[0]
                d2 = brokerlib.first_diff(o["steps"], pd2)
                if d2 is not None and not d2[1].startswith("schedule:"):
                    reproduced += 1
            if reproduced == 2:
                problems.append(("correspondence", se, d[0], "model and implementation disagree at step %d (%s): %s" % (d[0], se["steps"][d[0]]["op"], d[1][:600])))
        # keep the extraction honest: re-evaluate a sample inside Coq
        sample = exact[:2] if quick else exact[::max(1, len(exact) // 12)][:12]
        if sample:
            pc = brokerlib.eval_sessions_coq(sample)
            po = brokerlib.eval_sessions_ocaml(sample)
            if [[(list(a), list(b)) for a, b in x] for x in pc] != [[(list(a), list(b)) for a, b in x] for x in po]:
                problems.append(("obligation", None, None, "extracted runner and vm_compute disagree on the sample"))
            res.cov["sessions_cross_checked_in_coq"] = len(sample)
    # ---- crashes of the broker process
    for c in crashes:
        se = c.get("session")
        problems.append(("crash", se, None, "the broker process died%s: %s" % (
            (" while running `%s`" % se.get("crashed_at")) if se else "", c.get("stderr", "")[-400:].replace("\n", " | "))))
    # ---- monitors (the executable statement of the property) on every session
    mon_viol = []
    mon_stats = {}
    INFRA_NOTES = ("dial:", "header:", "no connection.start", "no connection.tune", "no connection.open-ok")
    aborted = [se for se in exact + racy_sessions if any(any(x in (st.get("note") or "") for x in INFRA_NOTES) for st in se["steps"])]
    if aborted:
        # the harness could not even open a socket / complete its own handshake in time (machine load): no observation
        exact = [se for se in exact if se not in aborted]
        racy_sessions = [se for se in racy_sessions if se not in aborted]
    unreproduced = 0
    for se in exact + racy_sessions:
        try:
            vs = monitor(se, mon_stats)
        except Exception as ex:  # a monitor bug must not look like a verdict
            raise vlib.Infra("monitor failed on session %s: %r" % (se["id"], ex))
        if vs and (se.get("kind") == "exact" or any(x in (st.get("note") or "") for st in se["steps"] for x in ("WEDGED", "TIMEOUT"))):
            # an exact session replays deterministically, and a broker that really stopped answering does so again:
            # the observation must reproduce (twice the settle time) before it is reported
            ops = [st["op"] for st in se["steps"]]
            again = []
            for attempt in range(2):
                o, e = brokerlib.replay_script(exe, se["cfg"], ops, settle=3)
                if o is None:
                    again = vs      # the broker died on replay: the crash is reported by the caller's own path
                    break
                o["id"], o["kind"], o["cfg"] = se["id"], se.get("kind"), se["cfg"]
                again = monitor(o, {})
                if again:
                    break
            if not again:
                unreproduced += 1
                continue
        for v in vs:
            mon_viol.append((se, v))
    res.cov["sessions_discarded_harness_could_not_connect"] = len(aborted)
    res.cov["monitor_observations_not_reproduced_on_replay"] = unreproduced
    # ---- evidence
    allse = exact + racy_sessions
    dist = {}
    for se in allse:
        for st in se["steps"]:
            k = st["op"].split()[0]
            dist[k] = dist.get(k, 0) + 1
    distinct = set()
    ntf = nontrivial or (lambda se: any(f.split(":")[1].startswith(("basic.deliver", "basic.get-ok")) for st in se["steps"] for f in st["frames"] if ":" in f))
    for se in allse:
        if ntf(se):
            distinct.add("\n".join(st["op"] for st in se["steps"]))
    res.cov["evaluations"] = len(allse)
    res.cov["distinct_nontrivial"] = len(distinct)
    res.cov["traces_validated_against_impl"] = validated
    res.cov["traces_compared_up_to_a_scheduler_choice"] = sched_dep
    res.cov["generator_processes_out_of_time"] = len(brokerlib.GEN_TIMEOUTS)
    res.cov["rule"] = ("sessions generated online against the real broker (built from /repo with -tags verif, booted in-process, driven by a raw "
                       "frame client; one request at a time, quiescence detected through the verif hooks): `exact` sessions are compared step by "
                       "step (frames per connection and projected snapshot) with the Coq model run by the extracted runner; `racy` sessions "
                       "(several consumers per queue, shared windows) are judged by the property monitor only; non-trivial = the session reaches "
                       "the property's code path (default: at least one delivery or get-ok); distinct = distinct op sequences")
    res.cov["generator_distribution"] = dict(sorted(dist.items()))
    res.cov["sessions"] = {"exact": len(exact), "racy": len(racy_sessions), "corpus": len(corpus_sessions), "steps_per_session": steps}
    res.cov["monitor_stats"] = mon_stats
    if allse:
        s0 = allse[min(3, len(allse) - 1)]
        res.cov["samples"] = [{"id": s0["id"], "cfg": s0["cfg"], "ops": [st["op"] for st in s0["steps"]][:40],
                               "frames_of_last_steps": [st["frames"] for st in s0["steps"]][-5:]}]
    res.assumptions += ["handlers are atomic at the granularity of the model (the locks named in DESIGN.md 2.3)",
                        "TCP delivers the client's bytes in order; the storage engine applies a batch atomically"]
    res.cov["wall_breakdown_s"] = {"total": round(time.time() - t0, 1)}
    brokerlib.cleanup_ocaml()
    decide(res, prop, problems, mon_viol, exe)


def shrink_session(exe, cfg, ops, still_fails, budget=40):
    """Delta-debug the op list (keeping OPEN/CH ops) while `still_fails(observed session)` holds."""
    def run(o):
        out, _ = brokerlib.replay_script(exe, cfg, o)
        return out
    best = ops
    n = 2
    tries = 0
    while len(best) > 3 and tries < budget:
        chunk = max(1, len(best) // n)
        reduced = False
        for i in range(0, len(best), chunk):
            cand = best[:i] + best[i + chunk:]
            if not cand:
                continue
            tries += 1
            out = run(cand)
            if out is not None and still_fails(out):
                best = cand
                n = max(n - 1, 2)
                reduced = True
                break
            if out is None and still_fails(None):
                best = cand
                reduced = True
                break
            if tries >= budget:
                break
        if not reduced:
            if chunk == 1:
                break
            n = min(n * 2, len(best))
    return best


def decide(res, prop, problems, mon_viol, exe):
    known = vlib.known_findings(prop)

    def is_known(se, what):
        for k in known:
            sig = k.get("signature", {})
            pat = sig.get("observation")
            if pat and re.search(pat, what):
                return k
        return None
    reported = set()
    # monitor violations are concrete failing inputs
    for se, v in mon_viol:
        k = is_known(se, v["what"])
        if k:
            if k["id"] not in reported:
                reported.add(k["id"])
                res.known_finding(k["id"], k.get("what", ""))
            continue
        key = v["what"][:40]
        if key in reported or len(res.violations) >= 2:
            continue
        reported.add(key)
        ops = [st["op"] for st in se["steps"]][: v.get("step", len(se["steps"]) - 1) + 1]
        res.violation(dict(kind="broker-session", cfg=se["cfg"], session_kind=se.get("kind"), ops=ops, step=v.get("step"),
                           observation=v["what"], frames=[st["frames"] for st in se["steps"]][max(0, v.get("step", 0) - 2): v.get("step", 0) + 1],
                           replay_cmd="printf '%%s\\n' ... | harness/bin/broker replay -rabbit=%s -engine %s  (ops above, one per line)" % (
                               "true" if se["cfg"].get("rabbit") else "false", se["cfg"].get("engine", "buntdb"))),
                      True, "%s: %s" % (prop, v["what"][:300]))
    if res.violations:
        return
    # broken obligation / correspondence / crash without a monitor hit
    for kind, se, idx, what in problems:
        if kind == "crash":
            ops = ([st["op"] for st in se["steps"]] + ([se["crashed_at"]] if se.get("crashed_at") else [])) if se else []
            res.violation(dict(kind="broker-crash", cfg=se["cfg"] if se else None, ops=ops, observation=what), bool(ops), what[:300])
            return
    for kind, se, idx, what in problems:
        if kind == "correspondence":
            ops = [st["op"] for st in se["steps"]][: idx + 1]
            res.violation(dict(kind="correspondence", cfg=se["cfg"], ops=ops, step=idx, broken="T1 correspondence model/implementation",
                               observation=what, note="the property monitor found no violation on the explored sessions"),
                          False, what[:300])
            return
    for kind, se, idx, what in problems:
        res.violation(dict(kind="obligation", broken=what), False, what[:300])
        return


def replay(path, monitor):
    r = json.load(open(path))
    exe, err = vlib.build_harness("broker")
    if exe is None:
        print(err); return 2
    if r.get("ops") and r.get("cfg"):
        o, e = brokerlib.replay_script(exe, r["cfg"], r["ops"])
        if o is None:
            print("the broker process died:", e[-800:]); return 1
        v = monitor(dict(o, id="replay"), {})
        for st in o["steps"]:
            print(st["op"], "|", st["frames"], "|", st.get("note") or "")
        print("monitor:", v)
        return 1 if v else 0
    print(json.dumps(r, indent=1)); return 0
