"""C15 - delivery tags and ack/nack/reject settle exactly what they name."""
import brokercheck, monitors


def run(res):
    brokercheck.run(res, "C15", "Props/C15.v", monitors.monitor_c15)


def replay(path):
    return brokercheck.replay(path, monitors.monitor_c15)
