"""Decoder part of C11 (no byte input can panic a decoder or make it allocate out of proportion).

Library for the broader C11 check (the lead owns the broker-level part):

    import C11_decoders
    problems = C11_decoders.run_decoders(res)      # fills res.cov[...]["decoders"], adds violations itself when it
                                                   # found a concrete failing input; returns a list of problem strings

It can also be run on its own:  ./check C11_decoders --tier quick   (evidence/C11_decoders.json).
"""
import json, os, re
import vlib
from vlib import log
import codec_common as cc

CHECKER = "make -C /verif/coq Props/C11_decoders.vo && coqc -Q /verif/coq GMQ Props/C11_decoders.v"
# implementation allocation allowed for an input of n bytes on which the model reports no forged-length allocation:
# every decoded byte may sit in a Go map bucket, an interface box and a string header; the constant covers buffers and pools
ALLOC_FACTOR, ALLOC_CONST = 160, 64 * 1024


def nest_depth(text):
    """Nesting depth of tables/arrays in a canonical value text."""
    depth = mx = 0
    for ch in text:
        if ch == "[":
            depth += 1
            mx = max(mx, depth)
        elif ch == "]":
            depth -= 1
    return mx


def run_decoders(res, own_result=False):
    quick = res.tier == "quick"
    problems = []
    tr = vlib.run_translator("codec")
    pr = vlib.coq_check_props("Props/C11_decoders.v", runners=["Run/CodecRun.v"])
    res.add_proof(pr, CHECKER)
    cov = res.cov.setdefault("decoders", {})
    DGEN = ["Codec/gen/TagsGen.v", "Codec/gen/MethodsGen.v", "Codec/gen/RecordsGen.v"]
    unrec = cc.unrecognised(tr, DGEN)
    cov["translator"] = {g: tr["files"].get(g, {}) for g in DGEN}
    cov["translator"]["alloc_shapes"] = cc.alloc_shapes()
    cov["unrecognised_shapes"] = unrec
    exe, err = vlib.build_harness("codec")
    if exe is None:
        raise vlib.Infra("harness does not build against /repo (is the tree compilable?):\n" + err)
    mal = 2600 if quick else 40000
    out = vlib.harness(exe, ["gen", "-seed", str(res.seed), "-n", "0", "-mal", str(mal), "-maxlen", str(cc.harness_maxlen())])
    _, ds = cc.parse_lines(out)
    _, corpus = cc.parse_lines("\n".join(cc.corpus_lines(exe, "C11")))
    alld = corpus + ds
    bad_d, allocs = None, {}
    if pr["runners_ok"]:
        _, bad_d, allocs, skipped = cc.eval_cases([], alld, "C11d")
    # open finding F61 (quadratic allocation in the nesting depth of tables): its witness is replayed separately
    f61 = [f for f in vlib.known_findings("C11") if f.get("id") == "F61"]
    wit = os.path.join(vlib.VERIF, "corpus", "C11", "F61-nested-tables.case")
    if f61 and os.path.exists(wit):
        for l in open(wit):
            l = l.split("#")[0].strip()
            if l:
                k, dd, hx = l.split()
                w = cc.DLine(vlib.harness(exe, ["dec", k, dd, hx]).strip())
                if w.alloc > ALLOC_FACTOR * (len(hx) // 2) + ALLOC_CONST:
                    res.known_finding("F61", "ReadTable allocates %d bytes for a %d-byte table nested %d deep (quadratic in the nesting depth)"
                                      % (w.alloc, len(hx) // 2, nest_depth(w.value)))
    panics = [d for d in alld if d.cls == "Panic"]
    # allocation class: what the implementation allocated against what the model accounts for
    balloon = []
    for i, d in enumerate(alld):
        n = len(d.hex) // 2
        allowed = ALLOC_FACTOR * n + ALLOC_CONST + 3 * allocs.get(i, 0)
        if d.alloc > allowed and not (f61 and nest_depth(d.value) > 64):
            balloon.append((d.alloc / float(max(n, 1)), i))
    balloon.sort(reverse=True)
    cov.update(evaluations=len(alld), panics=len(panics), class_mismatches=len(bad_d or []),
               forged_length_cases=len(allocs), largest_allocation=max([d.alloc for d in alld] or [0]),
               allocation_rule="implementation TotalAlloc delta <= %d*len + %d + 3*(bytes the model says were committed to a forged length)" % (ALLOC_FACTOR, ALLOC_CONST),
               generator_distribution=cc.distribution([], ds), samples=[d.raw[:400] for d in (ds[:2] + ds[-2:])])
    res.cov["evaluations"] += len(alld)
    res.cov["traces_validated_against_impl"] += len(alld) - len(bad_d or [])
    res.cov["distinct_nontrivial"] += len({d.hex for d in alld if d.mut not in ("valid", "given")})
    if own_result:
        res.cov["rule"] = ("decoder inputs = seeded mutations (bit flips, truncation, forged 4-byte and 1-byte lengths, tag letters, appended and spliced garbage) "
                           "of valid encodings of every kind (method, table, header, frame, message, queue, exchange, binding, strings) in both dialects, plus raw "
                           "garbage behind valid method ids; the Go decoders run under recover() with the allocation measured; the Coq model (vm_compute) must give the "
                           "same Ok/Err/Panic class, value and rest; non-trivial = distinct mutated inputs")
        res.cov["generator_distribution"] = cov["generator_distribution"]
        res.cov["samples"] = cov["samples"]
        res.cov["trusted_base"] = vlib.TRUSTED_BASE_COMMON + [
            "modelled, not verified: allocation is modelled only where a buffer is sized from a wire length (ReadLongstr, ReadFrame, ReadShortstr); "
            "Go map/interface/string overheads are measured by the harness against a linear bound, not modelled; the stack depth of nested tables is not modelled"]
    what = []
    if not pr["ok"]:
        what.append("proof obligation no longer checks: %s: %s" % (pr.get("failed_file"), pr.get("error", "")[:600]))
    if bad_d is None:
        what.append("model runner does not build")
    if panics:
        d = min(panics, key=lambda x: len(x.hex))
        problems.append("decoder panic on %s %s %s: %s" % (d.kind, d.d, d.hex[:200], d.value[:200]))
        res.violation(dict(kind="decoder-panic", case_kind=d.kind, dialect=d.d, bytes=d.hex, panic=d.value, mutation=d.mut, broken=what,
                           failing_cases=len(panics), replay_cmd="harness/bin/codec dec %s %s %s" % (d.kind, d.d, d.hex)),
                      True, "%s decoder panics on %s (dialect %s): %s" % (d.kind, d.hex[:200], d.d, d.value[:200]))
    elif balloon:
        _, i = balloon[0]
        d = alld[i]
        problems.append("decoder allocates %d bytes for %d input bytes (%s %s)" % (d.alloc, len(d.hex) // 2, d.kind, d.d))
        res.violation(dict(kind="decoder-allocation", case_kind=d.kind, dialect=d.d, bytes=d.hex, allocated=d.alloc, input_length=len(d.hex) // 2,
                           model_committed=allocs.get(i, 0), mutation=d.mut, broken=what, failing_cases=len(balloon),
                           replay_cmd="harness/bin/codec dec %s %s %s" % (d.kind, d.d, d.hex)),
                      True, "%s decoder allocates %d bytes for an input of %d bytes (dialect %s, input %s)" % (d.kind, d.alloc, len(d.hex) // 2, d.d, d.hex[:120]))
    elif bad_d:
        d = min((alld[i] for i in bad_d), key=lambda x: len(x.hex))
        model = None
        try:
            model = cc.model_decode_text(d.kind, d.d, d.hex)
        except vlib.Infra:
            pass
        problems.append("decoder model and implementation differ on %d inputs (first: %s %s %s)" % (len(bad_d), d.kind, d.d, d.hex[:200]))
        # a class difference is a violation of the decoder obligations only if the implementation side is the bad one;
        # otherwise it means the model is not the code: reported, the theorems then say nothing about this input
        res.violation(dict(kind="decoder-model-differs", case_kind=d.kind, dialect=d.d, bytes=d.hex, go_result=d.cls + " " + d.value, model_result=model,
                           mutation=d.mut, broken=what, failing_cases=len(bad_d), replay_cmd="harness/bin/codec dec %s %s %s" % (d.kind, d.d, d.hex)),
                      False, "decoder model and implementation differ: %s bytes %s: implementation %s, model %s" % (d.kind, d.hex[:160], (d.cls + " " + d.value)[:200], str(model)[:200]))
    elif what:
        problems += what
        # the obligation is over the regenerated shapes: attack them directly
        probes = [("frame", "rabbit", "010000ffffffff"), ("frame", "rabbit", "0100007fffffff"), ("longstr", "rabbit", "7fffffff"),
                  ("table", "rabbit", "7fffffff"), ("method", "rabbit", "000a000b7fffffff")]
        found = None
        if cc.harness_maxlen() < 0xFFFFFFFF:
            probes = [(k, d, h.replace("7fffffff", "04000000")) for k, d, h in probes]
        for k, d, h in probes:
            dl = cc.DLine(vlib.harness(exe, ["dec", k, d, h]).strip())
            if dl.cls == "Panic" or dl.alloc > ALLOC_FACTOR * (len(h) // 2) + ALLOC_CONST + 3 * (1 << 20):
                found = dl
                break
        if found:
            res.violation(dict(kind="decoder-panic" if found.cls == "Panic" else "decoder-allocation", case_kind=found.kind, dialect=found.d, bytes=found.hex,
                               go_result=found.cls + " " + found.value, allocated=found.alloc, broken=what,
                               replay_cmd="harness/bin/codec dec %s %s %s" % (found.kind, found.d, found.hex)),
                          True, "%s decoder on %s: %s, %d bytes allocated" % (found.kind, found.hex, found.cls, found.alloc))
        else:
            res.violation(dict(kind="obligation", broken=what, translator=cov["translator"]), False, "; ".join(what))
    if unrec and not res.violations:
        problems.append("unrecognised source shapes: %s" % json.dumps(unrec)[:600])
        cc.report_unrecognised(res, unrec, "mutated decoder inputs under recover() with allocation measured, corpus witnesses, forged-length probes: no failing input")
    return problems


def run(res):
    res.cov["rule"] = ""
    run_decoders(res, own_result=True)
    res.assumptions += ["allocation bound c = 2^20 bytes ahead of the data per length field (the code's own constant maxPrealloc is regenerated)"]


def replay(path):
    r = json.load(open(path))
    exe, err = vlib.build_harness("codec")
    if exe is None:
        raise vlib.Infra(err)
    if "bytes" in r:
        d = cc.DLine(vlib.harness(exe, ["dec", r["case_kind"], r["dialect"], r["bytes"]]).strip())
        print("implementation:", d.cls, d.value[:1500], "rest", d.rest, "allocated", d.alloc)
        print("model:         ", cc.model_decode_text(d.kind, d.d, d.hex))
        n = len(d.hex) // 2
        if d.cls == "Panic" or d.alloc > ALLOC_FACTOR * n + ALLOC_CONST + 3 * (1 << 20):
            return 1
        _, bad, _, _ = cc.eval_cases([], [d], "C11r")
        return 1 if bad else 0
    print(json.dumps(r, indent=1))
    return 0
