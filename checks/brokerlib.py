"""Broker-level correspondence (tier T1): session scripts -> Coq labels, model evaluation, comparison."""
import json, os, re, subprocess, sys, time
import vlib
from vlib import log


def cs(s):
    return '"%s"' % ("" if s == "-" else s)


def cb(s):
    return "true" if s == "1" else "false"


def cargs(s):
    if s in ("-", ""):
        return "[]"
    return "[" + "; ".join("(%s, %s)" % (cs(kv.split("=", 1)[0]), cs(kv.split("=", 1)[1])) for kv in s.split(",")) + "]"


def op_to_labels(op):
    """One script op -> Coq term of type list label."""
    f = op.split()
    k = f[0]
    if k == "OPEN":
        return "[LConnect %s]" % f[1]
    if k == "RESTART":
        return "[LPersistTick; LRestart]"
    if k == "ADMIN":
        return "[]"
    c = f[1]
    if k == "DROP":
        return "[LSocketLoss %s]" % c
    if k == "CLOSE":
        return "[LMethod %s 0 MConnClose]" % c
    if k == "CLOSEOK":
        return "[LMethod %s 0 MConnCloseOk]" % c
    if k == "ACCEPT":
        return "[LAccept %s]" % c
    if k == "BADM":
        return "[LBadMethod %s %s]" % (c, f[2])
    if k == "HB":
        return "[LHeartbeat %s %s]" % (c, f[2])
    if k == "IDLE":
        return "[LSocketLoss %s]" % c if f[2] == "1" else "[]"
    if k == "STARTOK":
        return "[LMethod %s 0 (MStartOk %s)]" % (c, cb(f[2]))
    if k == "TUNEOK":
        return "[LMethod %s 0 (MTuneOk %s)]" % (c, cb(f[2]))
    if k == "COPEN":
        return "[LMethod %s 0 (MConnOpen %s)]" % (c, cb(f[2]))
    h = f[2]
    def M(m):
        return "[LMethod %s %s %s]" % (c, h, m)
    if k == "CH": return M("MChannelOpen")
    if k == "CHCLOSE": return M("MChannelClose")
    if k == "CHCLOSEOK": return M("MChannelCloseOk")
    if k == "FLOW": return M("(MChannelFlow %s)" % cb(f[3]))
    if k == "XD": return M("(MExDeclare %s %s %s %s %s %s %s)" % (cs(f[3]), cs(f[4]), cb(f[5]), cb(f[6]), cb(f[7]), cb(f[8]), cb(f[9])))
    if k == "XDEL": return M("(MExDelete %s %s %s)" % (cs(f[3]), cb(f[4]), cb(f[5])))
    if k == "QD": return M("(MQDeclare %s %s %s %s %s %s)" % (cs(f[3]), cb(f[4]), cb(f[5]), cb(f[6]), cb(f[7]), cb(f[8])))
    if k == "QB": return M("(MQBind %s %s %s %s %s)" % (cs(f[3]), cs(f[4]), cs(f[5]), cargs(f[6]), cb(f[7])))
    if k == "QU": return M("(MQUnbind %s %s %s %s)" % (cs(f[3]), cs(f[4]), cs(f[5]), cargs(f[6])))
    if k == "QP": return M("(MQPurge %s %s)" % (cs(f[3]), cb(f[4])))
    if k == "QDEL": return M("(MQDelete %s %s %s %s)" % (cs(f[3]), cb(f[4]), cb(f[5]), cb(f[6])))
    if k == "QOS": return M("(MQos %s %s %s)" % (f[3], f[4], cb(f[5])))
    if k == "CONS": return M("(MConsume %s %s %s %s %s)" % (cs(f[3]), cs(f[4]), cb(f[5]), cb(f[6]), cb(f[7])))
    if k == "CANCEL": return M("(MCancel %s %s)" % (cs(f[3]), cb(f[4])))
    if k == "GET": return M("(MGet %s %s)" % (cs(f[3]), cb(f[4])))
    if k == "ACK": return M("(MAck %s %s)" % (f[3], cb(f[4])))
    if k == "REJ": return M("(MReject %s %s)" % (f[3], cb(f[4])))
    if k == "NACK": return M("(MNack %s %s %s)" % (f[3], cb(f[4]), cb(f[5])))
    if k == "RECOVER": return M("(MRecover %s)" % cb(f[3]))
    if k == "CONFIRM": return M("(MConfirmSelect %s)" % cb(f[3]))
    if k == "TXSELECT": return M("MTxSelect")
    if k == "PUBM": return M("(MPublish %s %s %s %s)" % (cs(f[3]), cs(f[4]), cb(f[5]), cb(f[6])))
    if k == "HDR": return "[LHeader %s %s %s %s]" % (c, h, f[3], cb(f[4]))
    if k == "BODY": return "[LBody %s %s %s]" % (c, h, f[5])
    if k == "PUB":
        lens = [] if f[9] in ("0", "-") else f[9].split("+")
        total = sum(int(x) for x in lens)
        ls = ["LMethod %s %s (MPublish %s %s %s %s)" % (c, h, cs(f[3]), cs(f[4]), cb(f[5]), cb(f[6])),
              "LHeader %s %s %d %s" % (c, h, total, cb(f[7]))] + ["LBody %s %s %s" % (c, h, x) for x in lens]
        return "[" + "; ".join(ls) + "]"
    raise vlib.Infra("cannot translate op: " + op)


def fixes_term(fx):
    names = ["fx_direct_all", "fx_redelivered", "fx_delete_checks_first", "fx_noack_total_once", "fx_get_count",
             "fx_closeok_releases", "fx_excl_owner", "fx_clear_current", "fx_not_impl", "fx_empty_body"]
    return "{| " + "; ".join("%s := %s" % (n, "true" if fx.get(n) else "false") for n in names) + " |}"


# ---- parser for Coq's printed lists / pairs / strings ----
_TOK = re.compile(r'"(?:[^"]|"")*"|[\[\]\(\);,]')


def parse_coq_value(text):
    toks = _TOK.findall(text)
    pos = [0]

    def val():
        t = toks[pos[0]]
        if t == "[":
            pos[0] += 1
            out = []
            if toks[pos[0]] == "]":
                pos[0] += 1
                return out
            while True:
                out.append(val())
                t2 = toks[pos[0]]
                pos[0] += 1
                if t2 == "]":
                    return out
        if t == "(":
            pos[0] += 1
            out = []
            while True:
                out.append(val())
                t2 = toks[pos[0]]
                pos[0] += 1
                if t2 == ")":
                    return tuple(out)
        if t.startswith('"'):
            pos[0] += 1
            return t[1:-1].replace('""', '"')
        raise vlib.Infra("unexpected token in coq output: %r" % t)
    return val()


def eval_sessions(sessions, gen_import, cfg_fx_term, tag="broker"):
    """sessions: list of dict(cfg=..., steps=[{op,...}]). Returns per session the model's [(frames, snap)] list."""
    results = []
    CH = 40
    for s0 in range(0, len(sessions), CH):
        chunk = sessions[s0:s0 + CH]
        parts = ["From Coq Require Import List String NArith.", "Import ListNotations.",
                 "From GMQ Require Import Broker.Model Run.BrokerRun %s." % gen_import,
                 "Open Scope string_scope.", "Open Scope N_scope.", "Set Printing Width 1000000.", "Set Printing Depth 10000000."]
        for i, se in enumerate(chunk):
            script = "[" + ";\n   ".join(op_to_labels(st["op"]) for st in se["steps"]) + "]"
            cfgt, fxt = cfg_fx_term(se)
            parts.append("Definition R%d := Eval vm_compute in run_session %s %s (init %s) %s." % (i, cfgt, fxt, cfgt, script))
            parts.append("Print R%d." % i)
        out = vlib.coq_eval(tag, "\n".join(parts) + "\n")
        for i in range(len(chunk)):
            m = re.search(r"R%d =\s*(.*?)\n\s*:\s*list \(list string \* list string\)" % i, out, re.S)
            if not m:
                raise vlib.Infra("no result for session %d in coq output" % i)
            results.append(parse_coq_value(m.group(1)))
    return results


def _delivery_groups(frames):
    """(other frames in order, [delivery group with its delivery tag erased], consumers that were delivered to)."""
    other, groups, who = [], [], set()
    cur = None
    for f in frames:
        m = re.match(r"(\d+\.\d+):basic\.deliver\(([^,]*),(\d+),(.*)\)$", f)
        if m:
            cur = ["%s:basic.deliver(%s,_,%s)" % (m.group(1), m.group(2), m.group(4))]
            groups.append(cur)
            who.add((m.group(1), m.group(2)))
        elif cur is not None and re.match(r"\d+\.\d+:(header|body)\(", f) and f.split(":")[0] == cur[0].split(":")[0]:
            cur.append(f)
        else:
            cur = None
            other.append(f)
    return other, sorted(tuple(g) for g in groups), who


def schedule_dependent_step(impl_frames, model_frames):
    """Two or more consumers were woken by the same request (an ack covering deliveries of several consumers, flow on,
    a publish fanned out to several consumed queues): which of them writes first - and so takes the next delivery
    tag - is the goroutine scheduler's choice.  The step is such a one when both sides show the same deliveries to
    the same two or more consumers and agree on every other frame; only order and delivery tags differ."""
    a, b = _delivery_groups(impl_frames), _delivery_groups(model_frames)
    return a[0] == b[0] and a[1] == b[1] and a[2] == b[2] and len(a[2]) >= 2


def _equal_up_to_ticker(a, b):
    """Publisher confirms are written by the channel's confirm ticker, a goroutine of its own: where its basic.ack frames
    fall among the replies of the requests pipelined after the publish is the scheduler's choice and changes nothing
    else.  Two frame lists are the same observation when they agree after the acks are taken out and the acks of each
    channel agree in order."""
    def split(fr):
        rest = [f for f in fr if ":basic.ack(" not in f]
        acks = {}
        for f in fr:
            if ":basic.ack(" in f:
                acks.setdefault(f.split(":", 1)[0], []).append(f)
        return rest, acks
    return split(a) == split(b)


def first_diff(impl_steps, model_steps, compare_snap=True):
    """Index of the first step where frames (and snapshot) differ, with a description; None if equal.
    A description starting with "schedule:" marks a step whose order of deliveries is the scheduler's choice."""
    for i, st in enumerate(impl_steps):
        if i >= len(model_steps):
            return i, "model has fewer steps"
        mf, ms = model_steps[i]
        if list(st["frames"]) != list(mf) and not _equal_up_to_ticker(list(st["frames"]), list(mf)):
            if schedule_dependent_step(list(st["frames"]), list(mf)):
                return i, "schedule: several consumers woken at once, delivery order differs: impl=%s model=%s" % (st["frames"], mf)
            return i, "frames differ: impl=%s model=%s" % (st["frames"], mf)
        if compare_snap and list(st["snap"]) != list(ms):
            d = [(a, b) for a, b in zip(st["snap"], ms) if a != b]
            extra = "" if len(st["snap"]) == len(ms) else " (line counts %d vs %d)" % (len(st["snap"]), len(ms))
            return i, "snapshot differs%s: %s" % (extra, d[:3] if d else (st["snap"], ms))
    return None


# ---------------------------------------------------------------- running sessions
ALL_FIXED = {k: True for k in ["fx_direct_all", "fx_redelivered", "fx_delete_checks_first", "fx_noack_total_once", "fx_get_count",
                               "fx_closeok_releases", "fx_excl_owner", "fx_clear_current", "fx_not_impl", "fx_empty_body",
                               "fx_discard_closing", "fx_nowait", "fx_stage", "fx_reopen_resets", "fx_chan_open"]}


def fixes_term(fx):
    names = list(ALL_FIXED.keys())
    return "{| " + "; ".join("%s := %s" % (n, "true" if fx.get(n) else "false") for n in names) + " |}"


def parse_stream(text):
    """Parse the JSON-lines stream of `broker gen` into sessions. A session cut short by a crash of the
    broker process keeps the op that was about to run in s['crashed_at']."""
    sessions, cur = [], None
    for line in text.splitlines():
        line = line.strip()
        if not line.startswith("{"):
            continue
        try:
            o = json.loads(line)
        except Exception:
            continue
        if "session" in o:
            cur = dict(id=o["session"], cfg=o["cfg"], kind=o["kind"], steps=[], about=None, ended=False, dist={})
            sessions.append(cur)
        elif cur is None:
            continue
        elif "about" in o:
            cur["about"] = o["about"]
        elif "step" in o:
            cur["steps"].append(o["step"])
            cur["about"] = None
        elif "end" in o:
            cur["ended"] = True
            cur["dist"] = o.get("dist", {})
    for s in sessions:
        if not s["ended"]:
            s["crashed_at"] = s["about"]
    return sessions


GEN_TIMEOUTS = []


def gen_sessions(exe, seed, n, steps, kind="exact", rabbit=-1, engine="", procs=12, settle=0, focus=""):
    """Run n generated sessions split over several broker processes (a broker panic kills only its process)."""
    work = os.path.join(vlib.WORK, "broker-%d" % os.getpid())
    os.makedirs(work, exist_ok=True)
    per = max(1, (n + procs - 1) // procs)
    jobs = []
    for first in range(0, n, per):
        cnt = min(per, n - first)
        cmd = [exe, "gen", "-seed", str(seed), "-first", str(first), "-n", str(cnt), "-steps", str(steps), "-kind", kind,
               "-work", work, "-rabbit", str(rabbit), "-engine", engine, "-settle", str(settle)] + (["-focus", focus] if focus else [])
        jobs.append((first, cnt, subprocess.Popen(cmd, stdout=subprocess.PIPE, stderr=subprocess.PIPE, text=True)))
    sessions = []
    crashes = []
    t_end = time.time() + 600 + (per * steps) // 3
    for first, cnt, p in jobs:
        timed_out = False
        try:
            out, err = p.communicate(timeout=max(5, t_end - time.time()))
        except subprocess.TimeoutExpired:
            # the generator ran out of time (a loaded machine, bcrypt handshakes): the sessions it finished are kept,
            # the rest is not an observation of the broker (a wedged broker is reported by the session itself: WEDGED)
            p.kill()
            out, err = p.communicate()
            timed_out = True
            GEN_TIMEOUTS.append((first, cnt))
        ss = parse_stream(out)
        if timed_out and ss and not ss[-1].get("ended"):
            ss = ss[:-1]
        sessions += ss
        if p.returncode != 0 and not timed_out:
            crashes.append(dict(first=first, count=cnt, rc=p.returncode, stderr=err[-3000:],
                                session=ss[-1] if ss else None))
    import shutil
    shutil.rmtree(work, ignore_errors=True)
    return sessions, crashes


def replay_script(exe, cfg, ops, settle=0):
    work = os.path.join(vlib.WORK, "broker-replay-%d" % os.getpid())
    os.makedirs(work, exist_ok=True)
    p = subprocess.run([exe, "replay", "-rabbit=%s" % ("true" if cfg.get("rabbit") else "false"), "-engine", cfg.get("engine", "buntdb"),
                        "-work", work, "-settle", str(settle)] + (["-auth", cfg["auth"]] if cfg.get("auth") else []) + (["-maxram", str(cfg["maxram"])] if cfg.get("maxram") else []), input="\n".join(ops) + "\n", capture_output=True, text=True, timeout=300)
    import shutil
    shutil.rmtree(work, ignore_errors=True)
    if p.returncode != 0:
        return None, p.stderr[-3000:]
    return json.loads(p.stdout), ""


def model_cfg_fx(se, fx=None):
    cfg = "{| cfg_rabbit := %s; cfg_rollback := true; cfg_release_first := false |}" % ("true" if se["cfg"].get("rabbit") else "false")
    return cfg, fixes_term(fx or ALL_FIXED)


# ---------------------------------------------------------------- extracted model runner
_OCAML = {}


def build_ocaml_model():
    """Extract the runner from the compiled development and build the OCaml driver (once per check run)."""
    if "exe" in _OCAML:
        return _OCAML["exe"]
    out = os.path.join(vlib.WORK, "ocaml-%d" % os.getpid())
    p = vlib.sh(["bash", os.path.join(vlib.VERIF, "ocaml", "build.sh"), out], timeout=900)
    if p.returncode != 0:
        raise vlib.Infra("extraction / ocaml build failed:\n" + (p.stdout + p.stderr)[-3000:])
    _OCAML["exe"] = os.path.join(out, "brokermodel")
    _OCAML["dir"] = out
    return _OCAML["exe"]


def cleanup_ocaml():
    import shutil
    if "dir" in _OCAML:
        shutil.rmtree(_OCAML["dir"], ignore_errors=True)
        _OCAML.clear()


def fx_bits(fx):
    return "".join("1" if fx.get(n) else "0" for n in ALL_FIXED.keys())


def eval_sessions_ocaml(sessions, fx=None):
    """Model predictions [(frames, snap)] per session, computed by the extracted runner."""
    exe = build_ocaml_model()
    fx = fx or ALL_FIXED
    lines = []
    for se in sessions:
        lines.append("SESSION %s 1 %s" % ("1" if se["cfg"].get("rabbit") else "0", fx_bits(fx)))
        lines += [st["op"] for st in se["steps"]]
        lines.append("END")
    p = subprocess.run([exe], input="\n".join(lines) + "\n", capture_output=True, text=True, timeout=900)
    if p.returncode != 0:
        raise vlib.Infra("extracted model runner failed: " + p.stderr[-2000:])
    results, cur, step = [], None, None
    for l in p.stdout.splitlines():
        if l == "STEP":
            if cur is None:
                cur = []
            step = ([], [])
            cur.append(step)
        elif l.startswith("F "):
            step[0].append(l[2:])
        elif l.startswith("S "):
            step[1].append(l[2:])
        elif l == "ENDSESSION":
            results.append(cur or [])
            cur = None
    if len(results) != len(sessions):
        raise vlib.Infra("extracted runner returned %d sessions for %d" % (len(results), len(sessions)))
    return results


def eval_sessions_coq(sessions, fx=None, tag="brokercoq"):
    """The same predictions computed inside Coq (vm_compute) - used on a sample to keep the extraction honest."""
    fx = fx or ALL_FIXED
    parts = ["From Coq Require Import List String NArith.", "Import ListNotations.",
             "From GMQ Require Import Broker.Model Run.BrokerRun Run.BrokerScript.",
             "Open Scope string_scope.", "Set Printing Width 1000000.", "Set Printing Depth 10000000."]
    for i, se in enumerate(sessions):
        cfgt, fxt = model_cfg_fx(se, fx)
        ops = "[" + "; ".join('"%s"' % st["op"] for st in se["steps"]) + "]"
        parts.append("Definition R%d := Eval vm_compute in run_text_session %s %s %s." % (i, cfgt, fxt, ops))
        parts.append("Print R%d." % i)
    out = vlib.coq_eval(tag, "\n".join(parts) + "\n")
    results = []
    for i in range(len(sessions)):
        m = re.search(r"R%d =\s*(.*?)\n\s*:\s*list \(list string \* list string\)" % i, out, re.S)
        if not m:
            raise vlib.Infra("no result for session %d in coq output" % i)
        results.append([(list(a), list(b)) for a, b in parse_coq_value(m.group(1))])
    return results
