"""C04 - confirmed persistent messages survive a broker kill at any instant: the store core
(msgstorage over the engine).  The broker-level clauses are the lead's."""
import json, os
import vlib
import stores_lib as sl

PROP = "C04"
CHECKER = "make -C /verif/coq Props/C04.vo (full .vo build of the cone) && coqc -Q /verif/coq GMQ Props/C04.v"
CLAUSES = {"durable", "order", "phantom", "not-early", "deleted", "purged", "length", "from", "confirmed"}


def plan(quick, seed):
    return [("rec", dict(seed=seed, n=260 if quick else 3000, len=22 if quick else 40, safe=False)),
            ("rec", dict(seed=seed + 1, n=260 if quick else 3000, len=22 if quick else 40, safe=True)),
            ("badger", dict(seed=seed + 2, n=16 if quick else 150, len=12, safe=False)),
            ("badger", dict(seed=seed + 3, n=24 if quick else 150, len=12, safe=True)),
            ("bunt", dict(seed=seed + 4, n=20 if quick else 200, len=14, safe=False)),
            ("bunt", dict(seed=seed + 5, n=20 if quick else 200, len=14, safe=True))]


def run_core(res):
    quick = res.tier == "quick"
    res.cov["trusted_base"] = vlib.TRUSTED_BASE_COMMON + [
        "ASSUMED, not modelled: a completed badger/buntdb transaction is durable and a batch is all-or-nothing; what the source contributes to that "
        "(opts.SyncWrites effective value true, SyncPolicy Always) is a generated obligation (Store/gen/OptsGen.v) - a kill test cannot see a lost sync option",
        "modelled, not verified: the engine as an ordered byte-keyed map; Go map iteration order (batches and relays compared as key-sorted lists); persistLock makes "
        "the swap atomic (persist split into swap / batch / confirm emission, API calls allowed in both windows); message content as an opaque handle",
        "the broker-level clauses of C04 (confirm written to the socket, acks, queue order after reload, the transient store) are the broker model's, not this check's",
    ]
    res.assumptions += ["engine durability and batch atomicity (badger SyncWrites / buntdb SyncPolicy Always)",
                        "store-level reading: 'confirm sent' = the storage relay event; 'ack reached the broker' = Del requested"]
    sl.run_msg_pipeline(res, PROP, "Props/C04.v", CHECKER, CLAUSES, plan(quick, res.seed),
                        corpus_dir=os.path.join(vlib.VERIF, "corpus", "C04"))
    # the broker-level clause (Props/C04_broker.v over Broker/Model.v: a confirmed persistent message held by a durable queue
    # has its key flushed and comes back from a kill at any later instant).  The broker model is tied to /repo by the T1
    # sessions of C02 / C05 / C09 (restart and confirm mixes); here its obligations are re-checked.
    pr2 = vlib.coq_check_props("Props/C04_broker.v")
    res.add_proof(pr2, CHECKER + " && coqc -Q /verif/coq GMQ Props/C04_broker.v")
    if not pr2["ok"]:
        what = "proof obligation no longer checks: %s: %s" % (pr2.get("failed_file"), pr2.get("error", "")[:600])
        res.violation(dict(kind="obligation", broken=what), False, what[:300])


def run(res):
    run_core(res)
    # what comes back after a restart is loaded by the queue (LoadFromMsgStorage, the swap threshold): the queue component
    vlib.also_run(res, "C19", why="queue/queue.go's reload from the message store is among C04's anchors")


def replay(path):
    r = json.load(open(path))
    if r.get("kind") == "queueswap-case":
        import C19
        return C19.replay(path)
    if r.get("kind") == "msg-ops":
        return sl.replay_msg(r)
    print(json.dumps(r, indent=1))
    return 0
