"""C16 - refused operations carry the right error and change nothing."""
import json
import brokercheck, brokerlib, monitors, vlib


def nontrivial(se):
    return any(":channel.close(" in f or ":connection.close(" in f for st in se["steps"] for f in st["frames"])


def run(res):
    brokercheck.run(res, "C16", "Props/C16.v", monitors.monitor_c16, nontrivial=nontrivial)


def replay(path):
    return brokercheck.replay(path, monitors.monitor_c16)
