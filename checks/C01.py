"""C01 - see Props/C01.v and monitors.monitor_c01."""
import brokercheck, monitors


def run(res):
    brokercheck.run(res, "C01", ["Props/C01.v", "Props/C01_history.v"], monitors.monitor_c01)


def replay(path):
    return brokercheck.replay(path, monitors.monitor_c01)
