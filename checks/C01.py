"""C01 - see Props/C01.v and monitors.monitor_c01."""
import brokercheck, monitors
import vlib


def _sub_replay(path):
    """replays of the component checks this check also runs"""
    import json
    k = json.load(open(path)).get("kind", "")
    if k == "queueswap-case":
        import C19
        return C19.replay(path)
    if k == "safequeue-ops":
        import C03
        return C03.replay(path)
    if k == "msg-ops":
        import stores_lib
        return stores_lib.replay_msg(json.load(open(path)))
    return None


def run(res):
    brokercheck.run(res, "C01", ["Props/C01.v", "Props/C01_history.v"], monitors.monitor_c01)
    # the ready list of the model is the list the sharded ring refines: a ring that loses an element loses a message
    vlib.also_run(res, "C03", "run_ring", why="safequeue/safequeue.go is among C01's anchors: the ring must be the FIFO list the broker model uses")


def replay(path):
    r = _sub_replay(path)
    if r is not None:
        return r
    return brokercheck.replay(path, monitors.monitor_c01)
