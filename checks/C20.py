"""C20 - counts reported to clients and the admin API are accurate."""
import json
import brokercheck, brokerlib, monitors, vlib


def run(res):
    brokercheck.run(res, "C20", ["Props/C20.v", "Props/C20_history.v"], monitors.monitor_c20, focus="counts")
    # the message count of a queue deeper than its in-memory limit, of a purge and after a reload from the store is the
    # queue component's (C20_queue_length_with_restarts_partial lives there)
    vlib.also_run(res, "C19", why="queue/queue.go's queueLength across overflow, purge and restart is among C20's anchors")


def replay(path):
    if json.load(open(path)).get("kind") == "queueswap-case":
        import C19
        return C19.replay(path)
    return brokercheck.replay(path, monitors.monitor_c20)
