"""C20 - counts reported to clients and the admin API are accurate."""
import json
import brokercheck, brokerlib, monitors, vlib


def run(res):
    brokercheck.run(res, "C20", ["Props/C20.v", "Props/C20_history.v"], monitors.monitor_c20, focus="counts")


def replay(path):
    return brokercheck.replay(path, monitors.monitor_c20)
