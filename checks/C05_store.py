"""C05, 'never early', store clause (library; the lead's checks/C05.py may call run_store_not_early(res)).
Also runnable on its own: ./check C05_store"""
import json, os
import vlib
import stores_lib as sl

CHECKER = "make -C /verif/coq Props/C05_store.vo && coqc -Q /verif/coq GMQ Props/C05_store.v"


def run_store_not_early(res):
    quick = res.tier == "quick"
    plan = [("rec", dict(seed=res.seed + 20, n=200 if quick else 2000, len=22, safe=False)),
            ("bunt", dict(seed=res.seed + 21, n=15 if quick else 150, len=14, safe=True))]
    res.cov["trusted_base"] = (res.cov.get("trusted_base") or vlib.TRUSTED_BASE_COMMON) + [
        "store clause of C05: 'in the store' = a completed ProcessBatch containing the key's Set; engine durability assumed (see C04)"]
    sl.run_msg_pipeline(res, res.prop, "Props/C05_store.v", CHECKER, {"not-early", "confirmed"}, plan, tag="C05_store")


def run(res):
    run_store_not_early(res)


def replay(path):
    r = json.load(open(path))
    if r.get("kind") == "msg-ops":
        return sl.replay_msg(r)
    print(json.dumps(r, indent=1))
    return 0
