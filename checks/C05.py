"""C05 - publisher confirms: exactly one, correctly numbered, never early."""
import brokercheck, monitors


def nontrivial(se):
    return any(st["op"].startswith("CONFIRM") for st in se["steps"]) and any(":basic.ack" in f for st in se["steps"] for f in st["frames"])


def run(res):
    # store clause of "never early" at msgstorage API level (model regenerated / cross-checked there)
    import os
    try:
        if os.environ.get("VERIF_DEV_SKIP_STORE"):
            raise ImportError
        import C05_store
        C05_store.run_store_not_early(res)
    except ImportError:
        res.notes.append("checks/C05_store.py not present: store clause covered at broker level only")
    if res.violations:
        return
    brokercheck.run(res, "C05", ["Props/C05.v", "Props/C05_history.v"], monitors.monitor_c05, nontrivial=nontrivial, focus="confirm")


def replay(path):
    import json
    r = json.load(open(path))
    if r.get("kind") == "msg-ops":
        import C05_store
        return C05_store.replay(path)
    return brokercheck.replay(path, monitors.monitor_c05)
