"""C07 - delivery never stalls while work and capacity exist."""
import brokercheck, monitors


def nontrivial(se):
    return any(st["op"].startswith("CONS") for st in se["steps"]) and any(":basic.deliver" in f for st in se["steps"] for f in st["frames"])


def run(res):
    brokercheck.run(res, "C07", ["Props/C07.v", "Props/C07_history.v"], monitors.monitor_c07, nontrivial=nontrivial, focus="flow")


def replay(path):
    return brokercheck.replay(path, monitors.monitor_c07)
