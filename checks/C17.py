"""C17 - exclusive access is enforced and queues never affect one another."""
import os
import brokercheck, monitors


def nontrivial(se):
    return any(st["op"].startswith("QD ") and st["op"].split()[5] == "1" for st in se["steps"])


def run(res):
    # the store's key space (names that are prefixes of one another, separators, restarts): msgstorage API level
    try:
        if os.environ.get("VERIF_DEV_SKIP_STORE"):
            raise ImportError
        import C17_store
        C17_store.run_store_isolation(res)
    except ImportError:
        res.notes.append("checks/C17_store.py not run: store key space not covered in this run")
    if res.violations:
        return
    brokercheck.run(res, "C17", "Props/C17.v", monitors.monitor_c17, nontrivial=nontrivial, focus="exclusive")


def replay(path):
    import json
    r = json.load(open(path))
    if r.get("kind") == "msg-ops":
        import C17_store
        return C17_store.replay(path)
    return brokercheck.replay(path, monitors.monitor_c17)
