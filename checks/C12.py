"""C12 - wire and storage encodings round-trip and match the AMQP grammar."""
import json, os, re
import vlib
from vlib import log
import codec_common as cc

CHECKER = "make -C /verif/coq Props/C12.vo (full .vo build of the cone) && coqc -Q /verif/coq GMQ Props/C12.v"
GEN = ["Codec/gen/MethodsGen.v", "Codec/gen/TagsGen.v", "Codec/gen/ConstGen.v", "Codec/gen/SpecGen.v", "Codec/gen/RecordsGen.v"]


def run(res):
    quick = res.tier == "quick"
    tr = vlib.run_translator("codec")
    res.cov["translator"] = {g: tr["files"].get(g, {}) for g in GEN}
    res.cov["translator"]["shapes"] = tr["shapes"]
    unrec = cc.unrecognised(tr, GEN)
    if unrec:
        res.notes.append("translator met unfamiliar shapes: %s" % json.dumps(unrec)[:1500])
    res.cov["unrecognised_shapes"] = unrec
    # hand-modelled Go functions: say so when one is no longer the shape the model was written against
    try:
        pinned = json.load(open(os.path.join(vlib.VERIF, "checks", "codec_shapes.json")))
        moved = sorted(k for k, v in pinned.items() if tr["shapes"].get(k) != v)
        if moved:
            res.notes.append("hand-modelled functions changed since the model was written (the theorems speak about them only as far as the "
                             "differential run ties the model to the new code): " + ", ".join(moved))
        res.cov["hand_modelled_functions_changed"] = moved
    except Exception as x:
        res.notes.append("codec_shapes.json unreadable: %s" % x)
    pr = vlib.coq_check_props("Props/C12.v", runners=["Run/CodecRun.v"])
    res.add_proof(pr, CHECKER)
    res.cov["trusted_base"] = vlib.TRUSTED_BASE_COMMON + [
        "modelled, not verified: Go integers as bit patterns in N with explicit mod 2^k; Go strings/[]byte as byte lists; Go maps as "
        "association lists (last key wins on decode, encode order unspecified and compared as maps); io.Reader over a byte slice; "
        "time.Time as its 64-bit Unix seconds; float32/64 as their IEEE bit patterns; nil *Table arguments (the writers dereference them) are outside the model",
        "the hand-written parts of the codec model (primitives, table/array loops, content header, frame, storage records) are tied to "
        "/repo by the differential run only; the per-method, per-tag and per-property tables are regenerated from the source",
    ]
    res.assumptions += ["values handed to the encoders satisfy the boolean well-formedness predicates of the theorems (shortstr <= 255 bytes, "
                        "longstr and table bodies < 2^32 bytes, numbers within their width, table keys unique)"]
    exe, err = vlib.build_harness("codec")
    if exe is None:
        raise vlib.Infra("harness does not build against /repo (is the tree compilable?):\n" + err)
    n, mal = (1200, 1200) if quick else (24000, 24000)
    out = vlib.harness(exe, ["gen", "-seed", str(res.seed), "-n", str(n), "-mal", str(mal), "-maxlen", str(cc.harness_maxlen())])
    es, ds = cc.parse_lines(out)
    _, corpus = cc.parse_lines("\n".join(cc.corpus_lines(exe, "C12") + cc.corpus_lines(exe, "C11")))
    derived = [x for x in (e.as_dcase() for e in es) if x is not None]
    # independent peer: the RabbitMQ Go client against a broker loop built from /repo's amqp package only
    peers = []
    for k in range(2 if quick else 12):
        peers += cc.peer_lines(exe, int(res.seed) * 100 + k, 10 if quick else 40)
    peer_bad = [p for p in peers if not p.agrees()]
    peer_d = [x for x in (p.as_dcase() for p in peers) if x is not None]
    res.cov["independent_peer"] = dict(peer="github.com/rabbitmq/amqp091-go (module cache; a dependency of /repo's own tests), RabbitMQ dialect",
                                       crossings=len(peers), client_to_broker=sum(1 for p in peers if p.dir == "c2s"),
                                       broker_to_client=sum(1 for p in peers if p.dir == "s2c"), disagreements=len(peer_bad),
                                       what="every method and content header crossing an in-memory pipe: value given to the sender = value decoded by the "
                                            "receiver, and the Coq model decodes the same bytes to that value (three-way)")
    alld = corpus + ds + derived + peer_d
    bad_e = bad_d = None
    if pr["runners_ok"]:
        bad_e, bad_d, allocs, skipped = cc.eval_cases(es, alld, "C12")
        if skipped:
            res.notes.append("%d cases hold Go values the model has no term for (nil *Table, unsupported types): not compared" % skipped)
    # the property judged on the implementation alone
    rt_fail = [e for e in es if e.producible and e.roundtrip_ok() is False]
    enc_fail = [e for e in es if e.producible and e.go_bytes() is None]
    res.cov["evaluations"] = len(es) + len(alld)
    nontrivial = set()
    for e in es:
        if e.kind in ("table", "method", "header", "message", "binding") and ("VTab" in e.value or "VArr" in e.value or "MTab [(" in e.value or e.kind == "method"):
            nontrivial.add(e.value)
    res.cov["distinct_nontrivial"] = len(nontrivial)
    res.cov["rule"] = ("typed random values per method struct / table (both dialects, nested tables and arrays, every Go type) / content header (random "
                       "flag subsets) / frame / stored message (delivery count included), queue, exchange, binding -> Go encode -> Go decode (a restored binding must also answer 32 topic/direct/fanout/header probes like the binding it was stored from); the Coq model (vm_compute) must produce "
                       "the same bytes (byte-exact when no map has more than one entry, else same length and byte sum) and decode every byte string - "
                       "Go's own output and %d mutated / arbitrary inputs - to the same result; non-trivial = distinct values that are methods or contain a "
                       "table/array" % len(ds))
    res.cov["generator_distribution"] = cc.distribution(es, ds)
    res.cov["samples"] = [es[0].raw[:600], es[len(es) // 2].raw[:600]] + ([ds[0].raw[:600], ds[-1].raw[:600]] if ds else [])
    res.cov["traces_validated_against_impl"] = (len(es) - len(bad_e or [])) + (len(alld) - len(bad_d or []))
    res.cov["exhaustive"] = False
    res.cov["alloc_shapes"] = cc.alloc_shapes()
    decide(res, pr, tr, exe, es, alld, bad_e, bad_d, rt_fail, enc_fail, peer_bad, unrec)


def shrink_roundtrip(exe, seed, e):
    """Nothing to shrink structurally (values come from a seeded generator): look for the smallest failing case of that kind nearby."""
    return e


def decide(res, pr, tr, exe, es, alld, bad_e, bad_d, rt_fail, enc_fail, peer_bad=(), unrec=None):
    if pr["ok"] and bad_e == [] and bad_d == [] and not rt_fail and not enc_fail and not peer_bad and not unrec:
        return
    what = []
    if not pr["ok"]:
        what.append("proof obligation no longer checks: %s: %s" % (pr.get("failed_file"), pr.get("error", "")[:600]))
    if bad_e is None:
        what.append("model runner does not build")
    replay_cmd = "harness/bin/codec case -seed %s -idx %%d" % res.seed
    # 0. the independent peer and the implementation read different values out of the same bytes
    if peer_bad:
        p = min(peer_bad, key=lambda x: len(x.raw))
        res.violation(dict(kind="peer-disagrees", direction=p.dir, case_kind=p.kind, dialect="rabbit", bytes=p.hex, sender_value=p.sent,
                           receiver_value=p.received, broken=what, failing_cases=len(peer_bad),
                           replay_cmd="harness/bin/codec peer -seed <seed*100+k> -n <rounds>   (see checks/C12.py)"),
                      True, "independent peer (amqp091-go) and implementation disagree, %s %s: sent %s, received %s" %
                      (p.dir, p.kind, p.sent[:300], p.received[:300]))
        return
    # 1. a value that does not come back from Go's own decoder: the property fails on the implementation itself
    if rt_fail or enc_fail:
        e = min(rt_fail or enc_fail, key=lambda x: len(x.raw))
        res.violation(dict(kind="roundtrip", case_kind=e.kind, dialect=e.d, value=e.value, go_encoding=e.enc, go_decoding_of_it=e.godec,
                           broken=what, failing_cases=len(rt_fail) + len(enc_fail), replay_cmd=replay_cmd % e.idx),
                      True, "%s value does not survive encode/decode in dialect %s: %s -> %s -> %s" %
                      (e.kind, e.d, e.value[:300], e.enc[:120], e.godec[:300]))
        return
    # 2. Go's bytes differ from the grammar's bytes for a value (the model is the grammar: C12_encode_is_grammar)
    if bad_e:
        e = min((es[i] for i in bad_e), key=lambda x: len(x.raw))
        model = None
        try:
            model = cc.model_encode_text(e)
        except vlib.Infra:
            pass
        res.violation(dict(kind="encoding-differs-from-grammar", case_kind=e.kind, dialect=e.d, value=e.value, go_encoding=e.enc,
                           grammar_encoding=model, broken=what, failing_cases=len(bad_e), replay_cmd=replay_cmd % e.idx),
                      True, "%s encoding differs from the grammar in dialect %s: value %s: implementation %s, grammar %s" %
                      (e.kind, e.d, e.value[:300], e.enc[:160], str(model)[:160]))
        return
    if bad_d:
        d = min((alld[i] for i in bad_d), key=lambda x: len(x.hex))
        model = None
        try:
            model = cc.model_decode_text(d.kind, d.d, d.hex)
        except vlib.Infra:
            pass
        res.violation(dict(kind="decoding-differs-from-grammar", case_kind=d.kind, dialect=d.d, bytes=d.hex, go_result=d.cls + " " + d.value,
                           go_rest=d.rest, grammar_result=model, mutation=d.mut, broken=what, failing_cases=len(bad_d),
                           replay_cmd="harness/bin/codec dec %s %s %s" % (d.kind, d.d, d.hex)),
                      True, "%s bytes %s decode to %s in the implementation, to %s by the grammar (dialect %s)" %
                      (d.kind, d.hex[:160], (d.cls + " " + d.value)[:300], str(model)[:300], d.d))
        return
    # 3. only an obligation broke: the regenerated model still agrees with the code, so the code has moved away from the
    #    specifications in a self-consistent way. Search for a concrete value / byte string on which it deviates from
    #    the grammar (the model instantiated with the protocol XML and Codec/Grammar.v instead of the regenerated tables).
    if bad_e is not None:
        try:
            pe = [e for e in es if e.producible]
            ge, gd, _, _ = cc.eval_cases(pe, [], "C12g", grammar=True)
            if ge:
                e = min((pe[i] for i in ge), key=lambda x: len(x.raw))
                res.violation(dict(kind="encoding-differs-from-grammar", case_kind=e.kind, dialect=e.d, value=e.value, go_encoding=e.enc,
                                   grammar_encoding=cc.model_encode_text(e, grammar=True), broken=what, failing_cases=len(ge),
                                   replay_cmd=replay_cmd % e.idx),
                              True, "%s encoding differs from the grammar in dialect %s: value %s: implementation %s" % (e.kind, e.d, e.value[:300], e.enc[:160]))
                return
        except vlib.Infra as x:
            what.append("grammar search failed: %s" % str(x)[:300])
    if unrec:
        # nothing concrete found (Go round trip, regenerated model, grammar model all agree on everything that was run)
        cc.report_unrecognised(res, unrec, "typed round trips, mutated decoder inputs, independent peer and the grammar-instantiated model: no failing input")
        if pr["ok"]:
            return
    res.violation(dict(kind="obligation", broken=what, translator={g: tr["files"].get(g) for g in GEN}), False, "; ".join(what))


def replay(path):
    r = json.load(open(path))
    exe, err = vlib.build_harness("codec")
    if exe is None:
        raise vlib.Infra(err)
    if r.get("kind") in ("roundtrip", "encoding-differs-from-grammar"):
        m = re.search(r"-seed (\d+) -idx (\d+)", r["replay_cmd"])
        line = vlib.harness(exe, ["case", "-seed", m.group(1), "-idx", m.group(2)]).strip()
        e = cc.ELine(line)
        print("value:          ", e.value[:2000])
        print("implementation: ", e.enc[:2000])
        print("decoded again:  ", e.godec[:2000])
        if r["kind"] == "encoding-differs-from-grammar":
            g = cc.model_encode_text(e, grammar=True)
            print("grammar:        ", g)
            return 0 if g == e.go_bytes() or not e.exact else 1
        return 0 if e.roundtrip_ok() in (True, None) and not (e.producible and e.go_bytes() is None) else 1
    if r.get("kind") == "decoding-differs-from-grammar":
        line = vlib.harness(exe, ["dec", r["case_kind"], r["dialect"], r["bytes"]]).strip()
        d = cc.DLine(line)
        print("implementation:", d.cls, d.value[:2000], "rest", d.rest)
        print("grammar:       ", cc.model_decode_text(d.kind, d.d, d.hex))
        _, bad, _, _ = cc.eval_cases([], [d], "C12r")
        return 1 if bad else 0
    print(json.dumps(r, indent=1))
    return 0
