"""C06 - prefetch limits bound the unsettled deliveries at every instant."""
import brokercheck, monitors, vlib


def nontrivial(se):
    return any(st["op"].startswith("QOS") for st in se["steps"]) and any(":basic.deliver" in f or ":basic.get-ok" in f for st in se["steps"] for f in st["frames"])


def run(res):
    # the window arithmetic of qos/qos.go (translated on every run) and the PopQos reservation loop at API level
    try:
        import C06_qos
        sub = C06_qos.run_qos(res)
        res.cov["qos_api_level"] = {k: (sub.get(k) if isinstance(sub, dict) else None) for k in ("evaluations", "distinct_nontrivial")} if sub else {}
    except ImportError:
        res.notes.append("checks/C06_qos.py not present: window arithmetic checked at broker level only")
    if res.violations:
        return
    keep = dict(obl=res.cov["obligations"], dis=res.cov["discharged"], th=list(res.cov.get("theorems", [])))
    brokercheck.run(res, "C06", ["Props/C06.v", "Props/C06_ledgers.v", "Props/Bridge.v"], monitors.monitor_c06, nontrivial=nontrivial)


def replay(path):
    return brokercheck.replay(path, monitors.monitor_c06)
