"""C09 - durable exchanges, queues and bindings survive restart exactly (the metadata store:
srvstorage over the engine; the broker-level clauses are the lead's)."""
import json, os, shutil
import vlib
from vlib import log
import stores_lib as sl

PROP = "C09"
CHECKER = "make -C /verif/coq Props/C09.vo (full .vo build of the cone) && coqc -Q /verif/coq GMQ Props/C09.v"
CORPUS = os.path.join(vlib.VERIF, "corpus", "C09")


def load_witnesses(path):
    out = []
    if os.path.exists(path):
        for l in open(path):
            l = l.strip()
            if l and not l.startswith("#"):
                out.append(l.split("|"))
    return out


def run_cases(exe, work, quick, seed):
    """-> list of Case (implementation outputs), generator distribution"""
    plan = [("rec", dict(seed=seed, n=220 if quick else 2500, len=14 if quick else 24, safe=False)),
            ("rec", dict(seed=seed + 1, n=220 if quick else 2500, len=14 if quick else 24, safe=True)),
            ("badger", dict(seed=seed + 2, n=12 if quick else 120, len=12, safe=False)),
            ("badger", dict(seed=seed + 3, n=10 if quick else 120, len=12, safe=True)),
            ("bunt", dict(seed=seed + 4, n=20 if quick else 200, len=12, safe=False)),
            ("bunt", dict(seed=seed + 5, n=20 if quick else 200, len=12, safe=True))]
    cases, dist = [], {}
    for eng, g in plan:
        lines = sl.run_harness(exe, "srv", eng, gen=g, work=work)
        for l in lines:
            cases.append(sl.Case("srv", l))
        dist["%s-%s" % (eng, "safe" if g["safe"] else "hostile")] = len(lines)
    return cases, dist


def directed_lines():
    """op lists that make two different entities meet in one key if names may contain the separators found in the
    regenerated formats (coq/Store/gen/KeyFmtGen.v): name pairs x<sep>y + z  versus  x + y<sep>z"""
    import re
    txt = open(os.path.join(vlib.COQ, "Store/gen/KeyFmtGen.v")).read()
    seps = set()
    m = re.search(r'binding_name_sep : string := "(.*)"', txt)
    if m:
        seps.add(m.group(1))
    for fm in re.findall(r'kf_format := "([^"]*)"', txt):
        for lit in fm.split("%s"):
            if lit:
                seps.add(lit)
    m = re.search(r'sp_sep := "(.*?)"', txt)
    if m:
        seps.add(m.group(1))
    h = lambda b: b.encode().hex()
    lines = []
    for sp in sorted(seps):
        a, b, c = "x", "y", "z"
        v = h("/")
        lines.append("AB:%s:%s:%s:%s:0:0 AB:%s:%s:%s:%s:0:0 GB:%s" % (v, h(a + sp + b), h(c), h("k"), v, h(a), h(b + sp + c), h("k"), v))
        lines.append("AB:%s:%s:%s:%s:0:0 AB:%s:%s:%s:%s:0:0 GB:%s" % (v, h(a), h(b + sp + c), h("k"), v, h(a), h(b), h(c + sp + "k"), v))
        lines.append("AQ:%s:%s:0:001 AQ:%s:%s:0:001 GQ:%s GQ:%s" % (h(a + sp + b), h("q"), h(a), h(b + sp + "q"), h(a + sp + b), h(a)))
        lines.append("AE:%s:%s:0:1000 AE:%s:%s:0:1000 GE:%s GE:%s" % (h(a + sp + b), h("e"), h(a), h(b + sp + "e"), h(a + sp + b), h(a)))
        lines.append("AV:%s:0 AV:%s:0 GV" % (h(a + sp + b), h(a)))
    return lines


def fails_new(exe, work, engine, ops):
    line = sl.run_harness(exe, "srv", engine, lines=[" ".join(ops)], work=work)[0]
    return bool(sl.new_fails(sl.judge_srv(sl.Case("srv", line))))


def run_store(res):
    quick = res.tier == "quick"
    st, shapes = sl.translator_status()
    res.cov["translator"] = {"files": st, "shapes": {k: v for k, v in shapes.items() if k.startswith(("srvstorage/", "binding/"))}}
    pr = vlib.coq_check_props("Props/C09.v", runners=[sl.RUNNER])
    res.add_proof(pr, CHECKER)
    if res.tier == "thorough" and pr["ok"]:
        probs = sl.thorough_extras(res, "Props/C09.v")
        if probs:
            pr["ok"], pr["failed_file"], pr["error"] = False, "Props/C09.v", "; ".join(probs)
    res.cov["trusted_base"] = vlib.TRUSTED_BASE_COMMON + [
        "assumed, not modelled: a completed engine Set/Del is durable and atomic (badger SyncWrites / buntdb SyncPolicy Always: see C04's generated obligations)",
        "modelled, not verified: the engine as an ordered byte-keyed map; binding argument tables as opaque byte strings (the codec component owns tables); Go map iteration order ignored (GetVhosts compared as a map)",
        "the broker-level clauses of C09 (write-through before the reply, NewVhost recovery order, routing through restored bindings) are the broker model's, not this check's",
    ]
    res.assumptions += ["engine durability and atomicity of a completed Set/Del", "names fit an AMQP shortstr (<= 255 bytes)"]
    exe = sl.build()
    work = vlib.workdir("C09")
    try:
        # 1. known-finding witnesses, re-confirmed on the real code
        confirmed = {}
        wit_cases = []
        for fid, trig, eng, ops in load_witnesses(os.path.join(CORPUS, "witnesses.txt")):
            line = sl.run_harness(exe, "srv", eng, lines=[ops], work=work)[0]
            c = sl.Case("srv", line)
            wit_cases.append(c)
            fl = sl.judge_srv(c)
            if any(trig in f["triggers"] for f in fl):
                confirmed.setdefault(fid, []).append("%s (%s): %s" % (trig, eng, [f for f in fl if trig in f["triggers"]][0]["what"][:160]))
        for fid, whats in sorted(confirmed.items()):
            res.known_finding(fid, "; ".join(sorted(set(w.split(":")[0] for w in whats))) + " -- e.g. " + whats[0])
        # 2. corpus of past failures + generated cases
        corpus_lines = [l[-1] for l in load_witnesses(os.path.join(CORPUS, "cases.txt"))]
        cases = list(wit_cases)
        if corpus_lines:
            cases += [sl.Case("srv", l) for l in sl.run_harness(exe, "srv", "rec", lines=corpus_lines, work=work)]
        gen_cases, dist = run_cases(exe, work, quick, res.seed)
        cases += gen_cases
        bad = sl.model_mismatches(cases, "C09") if pr["runners_ok"] else None
        # 3. the executable property statement on every implementation trace
        new, known_hits, nontrivial = [], 0, set()
        for i, c in enumerate(cases):
            fl = sl.judge_srv(c)
            nf = sl.new_fails(fl)
            if nf:
                new.append((i, nf))
            known_hits += len(fl) - len(nf)
            # non-trivial: at least one Get* returned an entity after a restart or a delete happened before it
            if any(o.startswith(("q:", "e:", "b:")) for o in c.outs) and any(op.split(":")[0] in ("K", "DQ", "DE", "DB") for op in c.ops):
                nontrivial.add(c.line)
        res.cov["evaluations"] = len(cases)
        res.cov["distinct_nontrivial"] = len(nontrivial)
        res.cov["rule"] = ("API-level differential runs of the real srvstorage.SrvStorage (recording in-memory engine with badger's iteration semantics, real badger, "
                           "real buntdb reopened at every K) against the Coq model Store/SrvStore.v evaluated by vm_compute, names drawn from an alphabet with '.', '_', '/', "
                           "the empty string and prefixes of one another (hostile) or separator-free (safe); every trace also judged by the python statement of C09; "
                           "non-trivial = a Get* returned entities in a case containing a restart or a delete; distinct = distinct case lines")
        res.cov["generator_distribution"] = dist
        res.cov["samples"] = [c.line[:400] for c in (gen_cases[:2] + gen_cases[-2:])]
        res.cov["traces_validated_against_impl"] = len(cases) - (len(bad) if bad else 0)
        res.cov["judge_failures_attributed_to_known_findings"] = known_hits
        res.cov["exhaustive"] = False
        decide(res, pr, bad, new, cases, exe, work, st)
    finally:
        shutil.rmtree(work, ignore_errors=True)


def decide(res, pr, bad, new, cases, exe, work, st):
    unrec = ["%s (%s)" % (f, s.get("detail", s.get("status"))) for f, s in st.items() if s.get("status") != "ok"]
    if pr["ok"] and bad == [] and not new and not unrec:
        return
    what = []
    if unrec:
        # an unrecognised source shape of a translated function is never a silent fallback
        what.append("translator does not recognise the source shape: %s" % "; ".join(unrec)[:600])
    if not pr["ok"]:
        what.append("proof obligation no longer checks: %s: %s" % (pr.get("failed_file"), pr.get("error", "")[:400]))
    if bad:
        what.append("correspondence srvstorage model/implementation differs on %d cases (first: %s)" % (len(bad), cases[bad[0]].line[:300]))
    if bad is None:
        what.append("model runner does not build")
    if not new:
        # directed search 1: collision candidates built from the separators the CURRENT source uses
        extra = [sl.Case("srv", l) for l in sl.run_harness(exe, "srv", "rec", lines=directed_lines(), work=work)]
        res.cov["evaluations"] += len(extra)
        for c in extra:
            nf = sl.new_fails(sl.judge_srv(c))
            if nf:
                cases.append(c)
                new.append((len(cases) - 1, nf))
                break
    if not new:
        # directed search 2: many more generated traces on the recording engine, judged only
        for k in range(6):
            g = dict(seed=res.seed + 1000 + k, n=1500, len=18, safe=(k % 2 == 0))
            extra = [sl.Case("srv", l) for l in sl.run_harness(exe, "srv", "rec", gen=g, work=work)]
            res.cov["evaluations"] += len(extra)
            for c in extra:
                nf = sl.new_fails(sl.judge_srv(c))
                if nf:
                    cases.append(c)
                    new.append((len(cases) - 1, nf))
                    break
            if new:
                break
    if new:
        i, nf = new[0]
        c = cases[i]
        ops = sl.shrink(c.ops, lambda o: fails_new(exe, work, c.engine, o))
        line = sl.run_harness(exe, "srv", c.engine, lines=[" ".join(ops)], work=work)[0]
        fl = sl.new_fails(sl.judge_srv(sl.Case("srv", line)))
        res.violation(dict(kind="srv-ops", engine=c.engine, ops=ops, implementation_line=line, failed=[f["what"] for f in fl][:5], broken=what,
                           replay_cmd="harness/bin/stores srv-batch -engine %s  <<< '%s'" % (c.engine, " ".join(ops))),
                      True, "srvstorage does not return exactly what was declared and not deleted: %s" % (fl[0]["what"][:300] if fl else nf[0]["what"][:300]))
    else:
        first = cases[bad[0]] if bad else None
        res.violation(dict(kind="obligation", broken=what, translator=st,
                           smallest_disagreeing_case=first.line if first else None,
                           model_outputs=sl.model_outputs_text(first, "C09r") if first else None), False, "; ".join(what))


def run(res):
    # 1. the metadata store (srvstorage), with kills between any two writes
    run_store(res)
    if res.violations or os.environ.get("VERIF_DEV_SKIP_BROKER"):
        return
    # 2. broker level: sessions that restart the broker (graceful stop, boot on the same storage) and look at what
    #    came back, compared step by step with the model's `restart` and judged by the restart monitor
    import brokercheck, monitors
    brokercheck.run(res, "C09", "Props/C09_broker.v", monitors.monitor_c09, focus="restart", racy=False,
                    nontrivial=lambda se: any(st["op"] == "RESTART" for st in se["steps"]))


def replay(path):
    r = json.load(open(path))
    if r.get("kind") == "srv-ops":
        exe = sl.build()
        work = vlib.workdir("C09r")
        try:
            line = sl.run_harness(exe, "srv", r["engine"], lines=[" ".join(r["ops"])], work=work)[0]
        finally:
            shutil.rmtree(work, ignore_errors=True)
        print("implementation:", line)
        fl = sl.judge_srv(sl.Case("srv", line))
        for f in fl:
            print("judge:", f["what"], "triggers:", f["triggers"])
        return 1 if sl.new_fails(fl) else 0
    print(json.dumps(r, indent=1))
    return 0
