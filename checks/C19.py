"""C19 - queue behaviour does not depend on depth versus queue.maxMessagesInRam
(+ the queue-level length counter of C20).  Real queue.Queue + real msgstorage over an in-memory engine,
explicit loader turns / persist ticks, against the Coq model Data/QueueSwap.v."""
import json, os, re, sys
import vlib
from vlib import log

CHECKER = "make -C /verif/coq Props/C19.vo (full .vo build of the cone) && coqc -Q /verif/coq GMQ Props/C19.v"
CORPUS = os.path.join(vlib.VERIF, "corpus", "C19")
FINDINGS = os.path.join(vlib.VERIF, "findings.d", "queueswap.jsonl")
BADGER_DIR = [None]   # scratch directory of the real badger engines of this run


# ------------------------------------------------------------------ case lines
class Case:
    def __init__(self, line):
        f = line.rstrip("\n").split("|")
        self.line = line.strip()
        self.durable, self.shard, self.maxram = f[0] == "1", int(f[1]), int(f[2])
        self.labels = f[3].split()
        self.broken = f[4].startswith("PANIC") or f[4].startswith("ERROR")
        self.err = f[4] if self.broken else ""
        self.obs = [] if self.broken else [o for o in f[4].split()]
        self.final = f[5] if len(f) > 5 else ""
        self.group = f[6] if len(f) > 6 and f[6].startswith("g") else None
        self.tags = dict(x.split("=") for x in f[7].split(",")) if len(f) > 7 and f[7] else {}
        if not self.broken and len(self.obs) != len(self.labels):
            self.broken, self.err = True, "output count"

    def script(self):
        return "%d|%d|%d|%s" % (self.durable, self.shard, self.maxram, " ".join(self.labels))

    def replay_args(self, workdir=None):
        a = ["replay"]
        if self.tags.get("e") == "badger":
            a += ["-engine", "badger", "-dir", workdir or BADGER_DIR[0]]
        if self.tags.get("n") == "1":
            a += ["-neighbours"]
        return a

    def outs(self):
        return [o.split(":")[0] for o in self.obs]

    def snaps(self):
        return [tuple(o.split(":")[1].split(",")) for o in self.obs]   # swapped,lastStored,lastMem,qlen,ringlen (strings)


def label_to_coq(l):
    p = lambda f: "true" if f == "p" else "false"
    if l[0] == "P": return "Push %s %s" % (l[1:-1], p(l[-1]))
    if l == "O": return "Pop"
    if l[0] == "Q": return "Requeue %s %s" % (l[1:-1], p(l[-1]))
    if l[0] == "A": return "AckMsg %s %s" % (l[1:-1], p(l[-1]))
    if l == "X": return "Purge"
    if l == "L": return "LoaderTurn"
    if l == "Li": return "LoaderIterRace"
    if l == "Kp": return "PersistTick true"
    if l == "Kt": return "PersistTick false"
    if l[0] == "R": return "LoaderRace %s %s" % (l[1:-1], p(l[-1]))
    if l == "Z": return "Restart"
    raise ValueError(l)


def case_to_coq(c):
    def out(o):
        if o == "_": return "ONone"
        if o == "-": return "OPop None"
        if o[0] == "x":   # Purge returns uint64(queueLength): read it back as the int64 it was
            n = int(o[1:])
            return "OPurge (%d)%%Z" % (n - (1 << 64) if n >= (1 << 63) else n)
        return "OPop (Some %s)" % o
    def obs(o):
        a, b = o.split(":")
        sw, ls, lm, ql, rl = b.split(",")
        return "(%s, (%s, %s, %s, (%s)%%Z, %s))" % (out(a), "true" if sw == "1" else "false", ls, lm, ql, rl)
    fin = dict(x.split("=") for x in c.final.split(";"))
    lst = lambda s: "[%s]" % "; ".join(x for x in s.split(",") if x)
    return "(%s, %d, [%s], [%s], (%s, %s, %s, %s, %s))" % (
        "true" if c.durable else "false", c.maxram, "; ".join(label_to_coq(l) for l in c.labels),
        "; ".join(obs(o) for o in c.obs), lst(fin["m"]), lst(fin["pa"]), lst(fin["pf"]), lst(fin["ta"]), lst(fin["tf"]))


HYPS_RESTART = {}  # case line -> hypotheses of the theorems over label lists with restarts
HYPS_SAFETY = {}   # case line -> does it satisfy the hypotheses of C19_order_exactly_once_partial


def unprintable(c):
    return c.broken or "?" in c.line


def eval_cases(cases, tag):
    """-> (bad indices, hyps list): where the model differs from the implementation; whether each case's label
    list satisfies the hypotheses of C19_config_independent_partial (wf_client && no_findings)."""
    bad, hyps = [], [None] * len(cases)
    CH = 700
    for s in range(0, len(cases), CH):
        terms, idx = [], []
        for i in range(s, min(s + CH, len(cases))):
            if unprintable(cases[i]):
                bad.append(i)
            else:
                terms.append(case_to_coq(cases[i])); idx.append(i)
        text = ("From Coq Require Import List NArith ZArith.\nImport ListNotations.\n"
                "From GMQ Require Import Data.QueueSwap Run.QueueSwapRun.\nOpen Scope N_scope.\n"
                "Definition cases : list qs_case := [\n%s\n].\n"
                "Definition M := Eval vm_compute in qs_mismatches cases.\nPrint M.\n"
                "Definition H := Eval vm_compute in qs_hyps cases.\nPrint H.\n"
                "Definition HS := Eval vm_compute in qs_hyps_safety cases.\nPrint HS.\n"
                "Definition HR := Eval vm_compute in qs_hyps_restart cases.\nPrint HR.\n") % ";\n".join(terms)
        out = vlib.coq_eval(tag, text)
        bad += [idx[int(m.replace("%nat", ""))] for m in vlib.parse_coq_list(out, "M")]
        hs = vlib.parse_coq_list(out, "HS")
        hr = vlib.parse_coq_list(out, "HR")
        for j, h in enumerate(vlib.parse_coq_list(out, "H")):
            hyps[idx[j]] = (h == "true")
            HYPS_SAFETY[cases[idx[j]].line] = (hs[j] == "true") or (hr[j] == "true")
            HYPS_RESTART[cases[idx[j]].line] = (hr[j] == "true")
    return sorted(set(bad)), hyps


# ------------------------------------------------------------------ the executable statement of the property
# Judged on the implementation's own trace (labels + observed outputs and snapshots), straight from the text of C19
# and the queue-level clause of C20: the successful deliveries are those of an unlimited FIFO list driven by the same
# client operations, a purge reports and removes everything, the length counter equals what the list holds, and a
# final drain (flush, load, pop until nothing comes) delivers everything.  It does not use the model.
def judge(c, drained=None):
    """-> (deviation or None, triggers): deviation = (label index, text); triggers = set of known-finding triggers
    (F40 / F24a / F24b) observed on this trace before the deviation."""
    trig = set()
    if c.broken:
        return (0, "harness: " + c.err), trig
    if c.maxram == 1:
        trig.add("F40")
    spec = []                    # the unlimited list
    outst = []                   # delivered, unsettled
    pers = set()                 # published persistent
    pendP, pendT = set(), set()  # overflowed (disk-only) ids not yet flushed, per store
    pendP_all = False            # the persistent store has pending adds/updates (any)
    prev = ("0", "0", "0", "0", "0")
    for i, (l, o) in enumerate(zip(c.labels, c.obs)):
        out, snap = o.split(":")
        snap = tuple(snap.split(","))
        sw_before, lm_before, ring_before = prev[0] == "1", int(prev[2]), int(prev[4])
        if l[0] == "P":
            n = int(l[1:-1])
            spec.append(n)
            if l[-1] == "p":
                pers.add(n)
                pendP_all = pendP_all or c.durable
            if int(snap[4]) == ring_before:          # not put into the ring: it lives on disk only
                (pendP if (c.durable and l[-1] == "p") else pendT).add(n)
        elif l == "O":
            if out == "-":
                pass  # no delivery now (not a violation by itself; stranded messages are caught by the drain)
            else:
                if not spec or str(spec[0]) != out:
                    return (i, "pop delivered %s, the unlimited FIFO list would deliver %s (list %s)" %
                            (out, spec[0] if spec else "nothing", spec[:6])), trig
                outst.append(spec.pop(0))
        elif l[0] == "Q":
            n = int(l[1:-1])
            spec.insert(0, n)
            if n in outst: outst.remove(n)
            if c.durable and l[-1] == "p":
                pendP_all = True
        elif l[0] == "A":
            n = int(l[1:-1])
            if n in outst: outst.remove(n)
        elif l == "X":
            # the count the purge reports is judged before the purge can count as a finding's trigger
            if out != "x%d" % len(spec):
                return (i, "purge reported %s, the queue holds %d" % (out[1:], len(spec))), trig
            if sw_before:
                trig.add("F24b")
            if c.durable and any(n in pers for n in outst):
                trig.add("F41u")     # the purge erases the store entries of unsettled persistent deliveries: visible at the next restart
            spec = []
        elif l in ("L", "Li"):
            proceeds = sw_before and ring_before < c.maxram // 2
            if proceeds and any(n > lm_before for n in pendP | pendT):
                trig.add("F24a")
            if proceeds and l == "Li":
                trig.add("F24i")
        elif l[0] == "R":
            if sw_before and ring_before < c.maxram // 2:
                trig.add("F24r")
            n = int(l[1:-1])
            spec.append(n)
            if l[-1] == "p":
                pers.add(n)
            pendP, pendT, pendP_all = set(), set(), False
        elif l == "Z":
            # a durable queue comes back with its persistent messages, ready or delivered-unsettled, in id order
            spec = sorted(n for n in set(spec + outst) if n in pers) if c.durable else []
            outst = []
            pendP, pendT, pendP_all = set(), set(), False
        elif l == "Kp":
            pendP, pendP_all = set(), False
        elif l == "Kt":
            pendT = set()
        if int(snap[3]) != len(spec):
            return (i, "queueLength is %s after %s, the queue holds %d (%s)" % (snap[3], l, len(spec), spec[:6])), trig
        prev = snap
    if drained is None:
        drained = ends_with_drain(c)
    if drained and spec:
        return (len(c.labels) - 1, "messages %s are never delivered although the run ends with a full drain" % spec[:6]), trig
    return None, trig


def deliveries(c):
    return [o for l, o in zip(c.labels, c.outs()) if l in ("O", "X") and o != "-"]


def restart_deep(c):
    """a restart after which the queue is swapped: it held at least `limit` persistent messages"""
    if c.broken:
        return False
    return any(l == "Z" and o.split(":")[1].split(",")[0] == "1" for l, o in zip(c.labels, c.obs))


def ends_with_drain(c):
    """the trace ends with a pop that found nothing although everything was flushed and the loader had its turn:
    either the queue is not swapped at the end (no loader turn will ever load anything) or the last pop was
    immediately preceded by Kp Kt L"""
    if c.broken or not c.labels or c.labels[-1] != "O" or not c.obs[-1].startswith("-:"):
        return False
    swapped_end = c.obs[-1].split(":")[1].split(",")[0] == "1"
    return (not swapped_end) or c.labels[-4:-1] == ["Kp", "Kt", "L"]


# ------------------------------------------------------------------ shrinking
def renumber_remove(labels, i):
    """remove label i; if it is a push, drop the settle labels of that message and renumber the later ones"""
    l = labels[i]
    rest = labels[:i] + labels[i + 1:]
    if l[0] not in "PR":
        return rest
    k = int(l[1:-1])
    out = []
    for x in rest:
        if x[0] in "PQAR":
            n = int(x[1:-1])
            if n == k:
                continue
            if n > k:
                x = "%s%d%s" % (x[0], n - 1, x[-1])
        out.append(x)
    return out


def shrink(exe, c, still_fails):
    labels = list(c.labels)
    def run(ls):
        cc = Case(vlib.harness(exe, c.replay_args() + ["%d|%d|%d|%s" % (c.durable, c.shard, c.maxram, " ".join(ls))]).strip())
        cc.tags = c.tags
        return cc
    cur = run(labels)
    if not still_fails(cur):
        return c
    progress = True
    while progress and len(labels) > 1:
        progress = False
        i = len(labels) - 1
        while i >= 0:
            cand = renumber_remove(labels, i)
            if cand:
                cc = run(cand)
                if not cc.broken and still_fails(cc):
                    labels, cur, progress = cand, cc, True
            i -= 1
    return cur


# ------------------------------------------------------------------ findings
def open_findings():
    out = []
    if os.path.exists(FINDINGS):
        for line in open(FINDINGS):
            line = line.strip()
            if line.startswith("{"):
                e = json.loads(line)
                if e.get("status") == "open":
                    out.append(e)
    return out


def confirm_findings(res, exe):
    """Replay every open finding's witness on the real code; KNOWN-FINDING only when it still reproduces."""
    confirmed = {}
    for e in open_findings():
        w = os.path.join(vlib.VERIF, e["witness"])
        if not os.path.exists(w):
            continue
        script = [l.strip() for l in open(w) if l.strip() and not l.startswith("#")][0]
        sub = "replay-bunt" if e["id"] == "F23" else "replay"
        c = Case(vlib.harness(exe, [sub, script]).strip())
        dev, trig = judge(c)
        if dev is not None:
            confirmed[e["id"]] = c
            res.known_finding(e["id"], "%s [witness %s: %s]" % (e["what"], e["witness"], dev[1]))
    return confirmed


# ------------------------------------------------------------------ the check
def run(res):
    quick = res.tier == "quick"
    tr = vlib.run_translator("queueswap")
    gen_status = tr["files"].get("Data/gen/QueueSwapGen.v", {})
    pr = vlib.coq_check_props("Props/C19.v", runners=["Run/QueueSwapRun.v"])
    res.add_proof(pr, CHECKER)
    res.cov["translator"] = {"Data/gen/QueueSwapGen.v": gen_status, "shapes": tr["shapes"],
                             "note": "generated facts = the lock discipline that makes each label atomic; the behaviour of the methods is tied by the "
                                     "differential correspondence; the ring abstraction stands on Proofs/SafeQueueProofs.ring_refines_list (C03)"}
    if gen_status.get("status") != "ok":
        pr = dict(pr, ok=False, failed_file="Data/gen/QueueSwapGen.v (translator)",
                  error="obligation 'generated atomicity facts = what the model assumes' no longer checks: the translator does not recognise %s" %
                        gen_status.get("detail", "?")[:700])
    res.cov["trusted_base"] = vlib.TRUSTED_BASE_COMMON + [
        "modelled, not verified: the ring as a list (ring_refines_list); Push / PopQos / Requeue / Purge / one loader turn / one persist as atomic labels "
        "(single-goroutine harness; concurrent overlap of these bodies is the broker-level T2/T3 tiers' business); badger as an ordered map with "
        "Seek+ValidForPrefix iteration and atomic batches (the harness engine implements exactly that); message ids have equally many decimal digits "
        "(byte order of keys = numeric order); the two iteration goroutines inside a loader turn share lastIteratedMsgID (a data race in the code): "
        "the harness orders them persistent-then-transient, as the model does",
        "the executable judge in checks/C19.py (python) used to search for, classify and shrink failing inputs",
    ]
    res.assumptions += ["maxMessagesInRAM >= 2 (F40 otherwise)",
                        "no loader turn proceeds while an overflowed message is still unflushed, either store (F24 otherwise)",
                        "no purge while the queue is swapped to disk (F24 otherwise)",
                        "label lists with restarts: durable queue; no purge while a persistent message is delivered and unsettled (F41-unsettled otherwise)",
                        "no push lands between the iterations and the final flag write of a proceeding loader turn (the loader takes no lock: F24-race otherwise)",
                        "the data race on lastIteratedMsgID between the two iteration goroutines of a loader turn does not fire (F24-iter otherwise)",
                        "the engine implements IterateByPrefixFrom / DeleteByPrefix / KeysByPrefixCount (badger does; the buntdb wrapper has stubs: F23)",
                        "client well-formedness: ids positive and increasing (GenerateSeq), only delivered unsettled messages are requeued or acked",
                        "pops are compared only when the ring is non-empty or nothing waits on disk (a pop on an empty ring is not a client-visible delivery attempt)"]
    exe, err = vlib.build_harness("queueswap")
    if exe is None:
        raise vlib.Infra("queueswap harness does not build against /repo (is the tree compilable?):\n" + err)
    confirmed = confirm_findings(res, exe)
    # search-only tier, never a verdict: the F24 scenario under the REAL Queue.Start() goroutines and the real 20 ms store tickers
    try:
        rt = vlib.harness(exe, ["realtime"], timeout=120).splitlines()
        res.cov["real_scheduler_runs"] = {"what": "limit 2, push 1-4, pop x3, push 5, drain; every operation followed by a pause of 0 or 45 ms; "
                                          "unlimited list delivers 1,2,3,4,5", "lines": rt,
                                          "F24_under_real_timing": any("step=0s" in l and "deliveries=1,2,3,5" in l for l in rt)}
    except vlib.Infra as e:
        res.notes.append("realtime runs failed: %s" % str(e)[:200])
    cases = []
    if os.path.isdir(CORPUS):
        for fn in sorted(os.listdir(CORPUS)):
            if fn.endswith(".cases"):
                for l in open(os.path.join(CORPUS, fn)):
                    l = l.strip()
                    if l and not l.startswith("#"):
                        cases.append(Case(vlib.harness(exe, ["replay", l]).strip()))
    ncorpus = len(cases)
    args = ["run", "-seed", str(res.seed), "-n", "400" if quick else "3600", "-groups", "45" if quick else "420", "-len", "40" if quick else "70",
            "-exhaustive", "2" if quick else "4", "-restarts"]
    cases += [Case(l) for l in vlib.harness(exe, args).splitlines() if l.strip()]
    # neighbour queues ("p", "q2") share the stores: a scan or count running past the queue's prefix becomes visible
    args = ["run", "-seed", str(int(res.seed) + 1), "-n", "60" if quick else "400", "-groups", "0", "-len", "40", "-restarts", "-neighbours"]
    cases += [Case(l) for l in vlib.harness(exe, args).splitlines() if l.strip()]
    # a slice over the REAL engine wrapper storage.NewBadger (temp dir, removed afterwards): storage_badger.go in the loop
    bdir = vlib.workdir("C19-badger")
    BADGER_DIR[0] = bdir
    args = ["run", "-seed", str(int(res.seed) + 2), "-n", "45" if quick else "300", "-groups", "3" if quick else "12", "-len", "30", "-restarts", "-neighbours",
            "-engine", "badger", "-dir", bdir]
    cases += [Case(l) for l in vlib.harness(exe, args, timeout=1500).splitlines() if l.strip()]
    bad, hyps = eval_cases(cases, "C19") if pr["runners_ok"] else (None, [None] * len(cases))
    # A disagreement or deviation counts only if it reproduces.  The one known source of nondeterminism is the data race on
    # lastIteratedMsgID inside a loader turn (finding F24-iter): the harness orders the two iterations persistent-then-transient,
    # but it cannot order the persistent goroutine's TEST before the transient iteration; on a loaded machine the race fires now and then.
    suspects = set(bad or [])
    for i, c in enumerate(cases):
        if judge(c)[0] is not None and not judge(c)[1]:
            suspects.add(i)
    flaky = []
    for i in sorted(suspects):
        c = cases[i]
        if c.broken:
            continue
        for attempt in range(2):
            c2 = Case(vlib.harness(exe, c.replay_args() + [c.script()]).strip())
            if c2.broken or (c2.obs, c2.final) != (c.obs, c.final):
                c2.group, c2.tags = c.group, c.tags
                flaky.append(dict(case=c.script(), first_run=c.line[:2000], rerun=c2.line[:2000]))
                cases[i] = c2
                break
    if flaky and bad is not None:
        redo = [i for i in sorted(suspects) if any(f["case"] == cases[i].script() for f in flaky)]
        bad2, hyps2 = eval_cases([cases[i] for i in redo], "C19-rerun")
        bad = sorted((set(bad) - set(redo)) | {redo[j] for j in bad2})
        for j, i in enumerate(redo):
            hyps[i] = hyps2[j]
    res.cov["nondeterministic_cases_rerun"] = {"count": len(flaky), "samples": flaky[:3],
                                               "cause": "lastIteratedMsgID data race inside mayBeLoadFromStorage (finding F24-iter) firing spontaneously under load"}
    # judge every implementation trace
    unknown, known_dev, overflowed, hyp_and_overflow, theorem_vs_impl = [], {}, 0, 0, []
    for i, c in enumerate(cases):
        dev, trig = judge(c)
        ov = any(s[0] == "1" for s in c.snaps()) if not c.broken else False
        overflowed += ov
        if hyps[i] and ov:
            hyp_and_overflow += 1
        if dev is not None:
            if trig:
                for t in trig:
                    known_dev[t] = known_dev.get(t, 0) + 1
            else:
                unknown.append((i, dev))
        if dev is not None and HYPS_SAFETY.get(c.line):
            theorem_vs_impl.append(i)   # the theorem's hypotheses hold on this label list, yet the implementation deviates
    # cross-configuration groups: identical delivery sequences (limit 1 excluded: F40)
    groups = {}
    for i, c in enumerate(cases):
        if c.group and not c.broken and c.maxram != 1:
            groups.setdefault((c.group, c.tags.get("e"), c.tags.get("n")), []).append(i)
    group_diffs = []
    for g, idx in groups.items():
        ref = deliveries(cases[idx[-1]])     # the largest limit: never overflows
        for i in idx[:-1]:
            if deliveries(cases[i]) != ref:
                group_diffs.append((i, idx[-1]))
    res.cov["evaluations"] = len(cases)
    res.cov["distinct_nontrivial"] = len({c.line for c in cases if not c.broken and any(s[0] == "1" for s in c.snaps())})
    res.cov["rule"] = ("API-level differential runs of the real queue.Queue + real msgstorage.MsgStorage (in-memory engine with badger iteration semantics, explicit "
                       "loader turns and persist ticks) against the Coq model (vm_compute), output and (swapped,lastStored,lastMem,queueLength,ring length) compared after "
                       "EVERY label, ring and store key sets at the end; random schedules (ticks/loader turns anywhere, limits 1,2,3,4,5,8,1000, shard sizes 1..4, "
                       "durable and not, persistent/transient mixes, requeue/ack/purge), bounded-exhaustive label sequences (after three pushes under limit 2: every sequence up to length %s over {push transient, push persistent, pop, loader turn, tick P, tick T, requeue, purge}, durable and not) and 'friendly' groups: one client script under 8 (shardSize,limit) pairs + limit 1; "
                       "non-trivial = the run overflowed to disk (swappedToDisk was set at some point); distinct = distinct case lines" % ("2" if quick else "4"))
    res.cov["generator_distribution"] = {"corpus": ncorpus, "random-schedule-and-bounded-exhaustive": sum(1 for c in cases[ncorpus:] if not c.group),
                                         "friendly-group-members": sum(1 for c in cases if c.group), "groups": len(groups),
                                         "overflowed": overflowed, "satisfy-hypotheses-and-overflow": hyp_and_overflow,
                                         "satisfy-hypotheses": sum(1 for h in hyps if h),
                                         "satisfy-safety-hypotheses": sum(1 for c in cases if HYPS_SAFETY.get(c.line)),
                                         "satisfy-safety-hypotheses-and-overflow": sum(1 for c in cases if HYPS_SAFETY.get(c.line) and not c.broken and any(x[0] == "1" for x in c.snaps())), "deviate-from-spec-with-known-trigger": known_dev}
    res.cov["samples"] = [c.line for c in cases[ncorpus:ncorpus + 2]] + [c.line for c in cases[-2:]]
    res.cov["traces_validated_against_impl"] = len(cases) - (len(bad) if bad else 0)
    res.cov["exhaustive"] = False
    res.cov["generator_distribution"].update({
        "with-restart": sum(1 for c in cases if "Z" in c.labels),
        "restart-of-a-queue-deeper-than-the-limit": sum(1 for c in cases if restart_deep(c)),
        "neighbour-queues-in-the-same-stores": sum(1 for c in cases if c.tags.get("n") == "1"),
        "real-badger-engine": sum(1 for c in cases if c.tags.get("e") == "badger"),
        "satisfy-restart-hypotheses": sum(1 for c in cases if HYPS_RESTART.get(c.line)),
        "satisfy-restart-hypotheses-with-restart": sum(1 for c in cases if HYPS_RESTART.get(c.line) and "Z" in c.labels)})
    res.cov["cases_where_theorem_hypotheses_hold_but_implementation_deviates"] = len(theorem_vs_impl)
    for i in theorem_vs_impl:   # cannot happen while model = implementation; if it does it is a failing input by the theorem itself
        if all(i != u[0] for u in unknown):
            unknown.append((i, judge(cases[i])[0]))
    try:
        decide(res, pr, bad, cases, exe, unknown, group_diffs, hyps)
    finally:
        import shutil
        shutil.rmtree(bdir, ignore_errors=True)


def decide(res, pr, bad, cases, exe, unknown, group_diffs, hyps):
    what = []
    if not pr["ok"]:
        what.append("proof obligation no longer checks: %s: %s" % (pr.get("failed_file"), (pr.get("error") or "")[:400]))
    if bad is None:
        what.append("model runner does not build")
    elif bad:
        what.append("correspondence queue model/implementation differs on %d cases (first: %s)" % (len(bad), cases[bad[0]].line[:600]))
    if group_diffs:
        i, j = group_diffs[0]
        what.append("one client script delivers differently under two configurations: %s vs %s" % (cases[i].script(), cases[j].script()))
    # a case that satisfies the hypotheses of the partial theorem must not deviate (theorem vs implementation)
    if not what and not unknown:
        return
    # failing input: an implementation trace that deviates from the unlimited list and shows no known trigger
    cand = [u for u in unknown]
    if not cand and group_diffs:
        i, j = group_diffs[0]
        cand = [(i, (0, "delivers %s, under limit %d the same client script delivers %s" %
                     (deliveries(cases[i]), cases[j].maxram, deliveries(cases[j]))))]
    if cand:
        cand.sort(key=lambda u: len(cases[u[0]].labels))
        i, dev = cand[0]
        c = cases[i]
        def still(cc):
            d, t = judge(cc)
            return d is not None and not t
        small = shrink(exe, c, still) if judge(c)[0] is not None else c
        d2, _ = judge(small)
        d2 = d2 or dev
        res.violation(dict(kind="queueswap-case", case=small.script(), tags=small.tags, implementation_trace=small.line, first_failing_label=d2[0],
                           observation=d2[1], broken=what, replay_cmd="harness/bin/queueswap %s '%s'" % (" ".join(small.replay_args("<dir>")), small.script())),
                      True, "queue with overflow deviates from the unlimited FIFO list: %s  [case %s]" % (d2[1], small.script()))
    else:
        res.violation(dict(kind="obligation", broken=what,
                           smallest_disagreeing_case=min((cases[i].line for i in bad), key=len) if bad else None),
                      False, "; ".join(what))


def replay(path):
    r = json.load(open(path))
    if r.get("kind") != "queueswap-case":
        print(json.dumps(r, indent=1))
        return 0
    exe, err = vlib.build_harness("queueswap")
    if exe is None:
        raise vlib.Infra(err)
    tmp = Case(r["case"] + "||")
    tmp.tags = r.get("tags") or {}
    bdir = vlib.workdir("C19-replay")
    try:
        c = Case(vlib.harness(exe, tmp.replay_args(bdir) + [r["case"]]).strip())
    finally:
        import shutil
        shutil.rmtree(bdir, ignore_errors=True)
    c.tags = tmp.tags
    print("implementation:", c.line)
    dev, trig = judge(c)
    print("property statement (unlimited FIFO list; queueLength):", "holds on this trace" if dev is None else "VIOLATED at label %d: %s" % dev,
          ("(known-finding triggers on this trace: %s)" % sorted(trig)) if trig else "")
    try:
        bad, hyps = eval_cases([c], "C19-replay")
        print("model:", "agrees with the implementation" if not bad else "differs from the implementation",
              "; hypotheses of C19_config_independent_partial %s" % ("hold" if hyps[0] else "do not hold"))
    except vlib.Infra as e:
        print("model: not evaluated (%s)" % str(e)[:200])
    return 0 if dev is None else 1
