"""C11 - no client input can crash, wedge or balloon the broker."""
import os
import brokercheck, monitors


def nontrivial(se):
    return any(st["op"].split()[0] in ("RAW", "BADM", "HB") for st in se["steps"])


def run(res):
    # the decoders: proofs over the translated decoders + byte-level differential runs (amqp package)
    try:
        if os.environ.get("VERIF_DEV_SKIP_STORE"):
            raise ImportError
        import C11_decoders
        C11_decoders.run_decoders(res)
    except ImportError:
        res.notes.append("checks/C11_decoders.py not run: decoder part not covered in this run")
    if res.violations:
        return
    # broker level: undecodable / unexpected frames against the model (exact sessions); hostile byte strings on
    # connections in every stage with a canary connection, allocation and liveness measured (racy sessions: TESTING)
    brokercheck.run(res, "C11", "Props/C11.v", monitors.monitor_c11, nontrivial=nontrivial, focus="hostile")


def replay(path):
    import json
    r = json.load(open(path))
    if r.get("kind") in ("codec-case", "decode-case"):
        import C11_decoders
        return C11_decoders.replay(path)
    return brokercheck.replay(path, monitors.monitor_c11)
