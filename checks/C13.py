"""C13 - the outbound byte stream is always a valid, uninterleaved frame sequence."""
import random, re
import brokercheck, brokerlib, monitors, vlib

# frame-max values the receivers of the re-cut correspondence negotiate (connection -> frame-max; 0 = no limit of its
# own); the publisher (connection 1) keeps the server's 65536
RECEIVERS = {2: 4096, 3: 5000, 4: 0, 5: 65536, 6: 4097}
CORNERS = [1, 2, 4087, 4088, 4089, 4090, 4991, 4992, 4993, 8175, 8176, 8177, 9984, 9985, 12264, 12265, 20000, 40000, 60000, 65528]


def reframe_session(seed, n):
    rnd = random.Random(seed * 7919 + 13)
    ops = ["OPEN 1", "CH 1 1"]
    for c, fm in RECEIVERS.items():
        ops += ["ACCEPT %d" % c, "STARTOK %d 1 PLAIN guest guest 0" % c, "TUNEOK %d 1 2047 %d" % (c, fm), "COPEN %d 1 /" % c,
                "CH %d 1" % c, "QD %d 1 qf%d 0 0 0 0 0" % (c, c), "QB %d 1 qf%d amq.fanout - - 0" % (c, c)]
        if c != 6:
            ops.append("CONS %d 1 qf%d t%d 1 0 0" % (c, c, c))
    stored = {}
    for uid in range(1, n + 1):
        k = rnd.choice([1, 1, 2, 3])
        sizes = [rnd.choice(CORNERS) if rnd.random() < 0.7 else rnd.randint(1, 65528) for _ in range(k)]
        stored[uid] = sizes
        ops.append("PUB 1 1 amq.fanout - 0 0 0 %d %s" % (uid, "+".join(map(str, sizes))))
        ops.append("GET 6 1 qf6 1")        # connection 6 takes its copy with basic.get (get-ok is a content block too)
    # a return to a connection with a small frame-max: the body it published comes back (it fits by construction)
    return ops, stored


def reframe_correspondence(res):
    """Run Data/Reframe.v's `reframe` and the real broker on the same stored frames and receivers; compare the body
    frame sizes of every content block."""
    exe, err = vlib.build_harness("broker")
    if exe is None:
        raise vlib.Infra("harness does not build: " + err)
    n = 12 if res.tier == "quick" else 80
    ops, stored = reframe_session(res.seed, n)
    cfg = {"rabbit": True, "engine": "buntdb", "auth": "plain"}
    o, e = brokerlib.replay_script(exe, cfg, ops)
    if o is None:
        res.violation(dict(kind="broker-crash", cfg=cfg, ops=ops, observation=e[-600:]), True, "the broker died during the re-cut session: " + e[-200:])
        return
    blocks = {}     # (conn, uid) -> [body sizes], in arrival order
    for st in o["steps"]:
        for f in st["frames"]:
            m = re.match(r"(\d+)\.\d+:body\((\d+),(\d+)\)", f)
            if m:
                blocks.setdefault((int(m.group(1)), int(m.group(2))), []).append(int(m.group(3)))
            m = re.match(r"(\d+)\.\d+:header\((\d+),", f)
            if m:
                blocks.setdefault((int(m.group(1)), int(m.group(2))), [])
    cases = []
    for (c, uid), obs in sorted(blocks.items()):
        if c in RECEIVERS and uid in stored:
            cases.append((c, uid, RECEIVERS[c], stored[uid], obs))
    missing = [(c, uid) for c in RECEIVERS for uid in stored if (c, uid) not in blocks]
    if missing:
        res.violation(dict(kind="correspondence", cfg=cfg, ops=ops, observation="no content block for (connection, message) %s" % missing[:5]),
                      True, "re-cut session: receivers got no content block for %d (connection, message) pairs, e.g. %s" % (len(missing), missing[:3]))
        return
    lst = lambda xs: "[" + "; ".join(str(x) for x in xs) + "]"
    text = ("From Coq Require Import List NArith Bool.\nImport ListNotations.\nFrom GMQ Require Import Data.Reframe.\nOpen Scope N_scope.\n"
            "Definition eqb_l (a b : list N) : bool := if list_eq_dec N.eq_dec a b then true else false.\n"
            "Definition cases : list (N * (N * (list N * list N))) := [\n  "
            + ";\n  ".join("(%d, (%d, (%s, %s)))" % (i, fm, lst(st), lst(ob)) for i, (c, uid, fm, st, ob) in enumerate(cases))
            + "].\nDefinition bad := Eval vm_compute in map fst (filter (fun c => negb (eqb_l (reframe (fst (snd c)) (fst (snd (snd c)))) (snd (snd (snd c))))) cases).\nPrint bad.\n"
            "Definition wide := Eval vm_compute in map fst (filter (fun c => existsb (fun n => (0 <? fst (snd c)) && (fst (snd c) <? wire_size n)) (snd (snd (snd c)))) cases).\nPrint wide.\n")
    out = vlib.coq_eval("reframe", text)
    bad = [int(x.replace("%N", "")) for x in vlib.parse_coq_list(out, "bad")]
    wide = [int(x.replace("%N", "")) for x in vlib.parse_coq_list(out, "wide")]
    cut = sum(1 for (_, _, _, st, ob) in cases if st != ob)
    res.cov["reframe_correspondence"] = {"content_blocks_compared": len(cases), "blocks_actually_recut": cut, "receivers_frame_max": RECEIVERS,
                                         "stored_frame_sizes": sorted({s for v in stored.values() for s in v})[:40], "disagreements": len(bad)}
    res.cov["evaluations"] = res.cov.get("evaluations", 0) + len(cases)
    res.cov["traces_validated_against_impl"] = res.cov.get("traces_validated_against_impl", 0) + len(cases)
    for i in wide[:1]:
        c, uid, fm, st, ob = cases[i]
        k = ops.index([x for x in ops if x.startswith("PUB 1 1 amq.fanout - 0 0 0 %d " % uid)][0])
        res.violation(dict(kind="session", cfg=cfg, ops=ops[:k + 2], observation="connection %d (frame-max %d) received body frames %s for message %d" % (c, fm, ob, uid)),
                      True, "C13: connection %d negotiated frame-max %d and received a body frame of %d bytes (%d on the wire) for message %d stored as %s" % (c, fm, max(ob), max(ob) + 8, uid, st))
        return
    for i in bad[:1]:
        c, uid, fm, st, ob = cases[i]
        k = ops.index([x for x in ops if x.startswith("PUB 1 1 amq.fanout - 0 0 0 %d " % uid)][0])
        res.violation(dict(kind="correspondence", cfg=cfg, ops=ops[:k + 2], broken="correspondence Data/Reframe.v reframe / SendContent",
                           observation="connection %d (frame-max %d), message %d stored as %s: broker sent %s" % (c, fm, uid, st, ob),
                           note="every frame is within the receiver's frame-max; the cutting differs from the model's"),
                      False, "re-cut correspondence: model and implementation cut message %d (stored %s) differently for frame-max %d: broker %s" % (uid, st, fm, ob))
        return


def run(res):
    brokercheck.run(res, "C13", ["Props/C13.v", "Props/C13_reframe.v"], monitors.monitor_c13)
    if not res.violations:
        reframe_correspondence(res)


def replay(path):
    return brokercheck.replay(path, monitors.monitor_c13)
