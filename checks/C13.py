"""C13 - the outbound byte stream is always a valid, uninterleaved frame sequence."""
import brokercheck, monitors


def run(res):
    brokercheck.run(res, "C13", "Props/C13.v", monitors.monitor_c13)


def replay(path):
    return brokercheck.replay(path, monitors.monitor_c13)
