"""Executable statements of the broker-level properties, evaluated on observed sessions of the implementation.
Each monitor(se, stats) returns a list of {"step": i, "what": text}."""
import re
from brokercheck import parse_snap, frames_of

METH = {"CH": (20, 10), "CHCLOSE": (20, 40), "FLOW": (20, 20), "XD": (40, 10), "XDEL": (40, 20), "QD": (50, 10), "QB": (50, 20),
        "QU": (50, 50), "QP": (50, 30), "QDEL": (50, 40), "QOS": (60, 10), "CONS": (60, 20), "CANCEL": (60, 30), "PUB": (60, 40),
        "PUBM": (60, 40), "GET": (60, 70), "ACK": (60, 80), "REJ": (60, 90), "RECOVER": (60, 110), "NACK": (60, 120),
        "CONFIRM": (85, 10), "TXSELECT": (90, 10)}
EXTYPES = {"direct", "fanout", "topic", "headers"}


def de(x):
    return "" if x == "-" else x


def expected_refusal(op, pre):
    """The refusal the property text demands for `op` in state `pre` (None = must not be refused):
    ("ch"|"conn", code). Written from the AMQP reply-code table, not from the model."""
    f = op.split()
    k = f[0]
    if k not in METH:
        return None
    c, h = int(f[1]), int(f[2])
    ch = pre["chans"].get((c, h))
    if ch is not None and ch["st"] == 2:
        if k == "CHCLOSE":
            return None           # a close crossing the broker's own close is answered with close-ok
        return "discarded"        # the broker is closing this channel: everything but close / close-ok is dropped
    if k != "CH" and (ch is None or ch["st"] in (0, 3)):
        return ("conn", 504)      # the channel is not open
    if k in ("CH", "CHCLOSE", "FLOW", "QOS", "CONFIRM", "CANCEL"):
        if k == "CH" and ch is not None and ch["st"] == 1:
            return ("conn", 504)
        if k == "CANCEL" and not any(cm["tag"] == f[3] for cm in ch["consumers"]):
            return ("ch", 404)
        return None
    Q = pre["queues"]
    X = pre["exchanges"]

    def q_of(name):
        q = Q.get(name)
        return q if q and q["active"] else None

    def locked(q):
        return q["excl"] and q["owner"] != c
    if k == "TXSELECT" or k == "RECOVER":
        return ("conn", 540)
    if k == "XDEL":
        return ("ch", 540)
    if k == "XD":
        name, ty, dur, ad, internal, pas = de(f[3]), f[4], f[5], f[6], f[7], f[8] == "1"
        if ty not in EXTYPES:
            return ("ch", 540)
        if name == "":
            return ("ch", 503)
        if pas:
            if f[9] == "1":
                return None
            return None if name in X else ("ch", 404)
        if name.startswith("amq."):
            return ("ch", 403)
        return "maybe406" if name in X else None
    if k == "QD":
        name, dur, excl, ad, pas = de(f[3]), f[4] == "1", f[5] == "1", f[6] == "1", f[7] == "1"
        if name == "":
            return ("ch", 503)
        q = q_of(name)
        if pas:
            if f[8] == "1":
                return None
            if q is None:
                return ("ch", 404)
            return ("ch", 405) if locked(q) else None
        if q is None:
            return None
        if locked(q):
            return ("ch", 405)
        return None if (q["dur"], q["ad"], q["excl"]) == (dur, ad, excl) else ("ch", 406)
    if k in ("QB", "QU"):
        qn, ex = de(f[3]), de(f[4])
        if ex not in X:
            return ("ch", 404)
        if k == "QB" and ex == "":
            return ("ch", 403)
        q = q_of(qn)
        if q is None:
            return ("ch", 404)
        if locked(q):
            return ("ch", 405)
        args = dict(kv.split("=", 1) for kv in f[6].split(",")) if f[6] not in ("-", "") else {}
        if "x-match" in args and args["x-match"] not in ("all", "any"):
            return ("ch", 406)
        # on a topic exchange the wildcards are whole words only (binding.go parseTopicPattern)
        if X[ex].get("type") == 3 and any(len(w) > 1 and ("*" in w or "#" in w) for w in (de(f[5]).split(".") if de(f[5]) != "" else [])):
            return ("ch", 406)
        return None
    if k in ("QP", "QDEL", "GET", "CONS"):
        q = q_of(de(f[3]))
        if q is None:
            return ("ch", 404)
        if locked(q):
            return ("ch", 405)
        if k == "QDEL":
            if f[4] == "1" and q["consumers"]:
                return ("ch", 406)
            if f[5] == "1" and q["ready"]:
                return ("ch", 406)
        if k == "CONS":
            if ch is not None and any(cm["tag"] == f[4] for cm in ch["consumers"]):
                return ("ch", 530)
            if q["consumers"] and (q["cexcl"] or f[6] == "1"):
                return ("ch", 403)
        return None
    if k in ("ACK", "NACK", "REJ"):
        mult = (f[4] == "1") if k in ("ACK", "NACK") else False
        if mult:
            return None
        tags = [u["tag"] for u in ch["unacked"]] if ch else []
        return None if int(f[3]) in tags else ("ch", 406)
    if k in ("PUB", "PUBM"):
        if f[6] == "1":
            return ("ch", 540)
        return None if de(f[3]) in X else ("ch", 404)
    return None


def entity_lines(snap_lines, skip_chan=None):
    out = []
    for l in snap_lines:
        if skip_chan and l.startswith("ch %d.%d " % skip_chan):
            l = re.sub(r" st=\d ", " st=* ", l)
        out.append(l)
    return out


def monitor_c16(se, stats):
    """Refused operations carry the right error and change nothing; operations that must be refused are."""
    viol = []
    prev = None
    for i, st in enumerate(se["steps"]):
        pre = parse_snap(prev) if prev is not None else None
        f = st["op"].split()
        fr = frames_of(st)
        if pre is not None and f[0] in METH and "WEDGED" not in (st.get("note") or ""):
            c, h = int(f[1]), int(f[2])
            exp = expected_refusal(st["op"], pre)
            closes = [(x[0], x[1], x[2], [int(a) for a in x[3]]) for x in fr if x[2] in ("channel.close", "connection.close")]
            stats["ops_judged"] = stats.get("ops_judged", 0) + 1
            if exp == "discarded":
                pass
            elif exp in (None, "maybe406"):
                if closes and exp is None:
                    viol.append({"step": i, "what": "operation `%s` must succeed in this state but was refused with %s" % (st["op"], closes[0])})
            else:
                scope, code = exp
                stats["refusals_expected"] = stats.get("refusals_expected", 0) + 1
                want = "channel.close" if scope == "ch" else "connection.close"
                cls, mth = METH[f[0]]
                ok = [x for x in closes if x[2] == want and x[3][0] == code and x[3][1] == cls and x[3][2] == mth and x[0] == c and (scope == "conn" or x[1] == h)]
                if not ok:
                    viol.append({"step": i, "what": "operation `%s` must be refused with %s %d naming class %d method %d, observed %s" % (
                        st["op"], want, code, cls, mth, closes or st["frames"])})
            if closes and exp != "discarded":
                # nothing but the offending channel's status may have changed
                if entity_lines(prev, (c, h)) != entity_lines(st["snap"], (c, h)):
                    d = [(a, b) for a, b in zip(entity_lines(prev, (c, h)), entity_lines(st["snap"], (c, h))) if a != b]
                    viol.append({"step": i, "what": "refused operation `%s` changed the broker state: %s" % (st["op"], d[:2])})
                stats["refusals_observed"] = stats.get("refusals_observed", 0) + 1
        prev = st["snap"]
    return viol


def monitor_c20(se, stats):
    """Counts reported to clients and the admin API are accurate."""
    viol = []
    prev = None
    qborn, uborn = {}, {}
    for i, st in enumerate(se["steps"]):
        if st["snap"] == ["WEDGED"]:
            break
        cur = parse_snap(st["snap"])
        # (a) the figures of the admin API (queue metrics, server totals) at quiescence
        # a delivery belongs to the queue object it came from: a queue declared later under the same name is another queue
        _rb = _reborn(st, cur)
        for qn in cur["queues"]:
            if prev is None or qn not in prev["queues"] or qn in _rb:
                qborn[qn] = i
        un = {}
        live = set()
        for key, ch in cur["chans"].items():
            for u in ch["unacked"]:
                k = (key, u["tag"], u["uid"])
                live.add(k)
                if k not in uborn:
                    uborn[k] = i
                if u["queue"] in cur["queues"] and uborn[k] >= qborn.get(u["queue"], 0):
                    un[u["queue"]] = un.get(u["queue"], 0) + 1
                else:
                    un["\0orphan"] = un.get("\0orphan", 0) + 1
        for k in list(uborn):
            if k not in live:
                del uborn[k]
        tot_r = tot_u = 0
        for qn, q in cur["queues"].items():
            r, u = len(q["ready"]), un.get(qn, 0)
            tot_r += r
            tot_u += u
            stats["queue_states"] = stats.get("queue_states", 0) + 1
            if q["len"] != r:
                viol.append({"step": i, "what": "queue %s: length counter %d but %d messages are ready (after `%s`)" % (qn, q["len"], r, st["op"])})
            if q["m"] != (r, u, r + u):
                viol.append({"step": i, "what": "queue %s: admin figures ready/unacked/total %s but truth is %s (after `%s`)" % (qn, q["m"], (r, u, r + u), st["op"])})
        orphan = sum(v for k, v in un.items() if k not in cur["queues"])
        if cur["server"] is not None and cur["server"] != (tot_r, tot_u + orphan, tot_r + tot_u + orphan):
            viol.append({"step": i, "what": "server figures ready/unacked/total %s but truth is %s (after `%s`)" % (
                cur["server"], (tot_r, tot_u + orphan, tot_r + tot_u + orphan), st["op"])})
        # (a') the admin overview, read at quiescence
        adm = st.get("admin")
        if adm:
            stats["admin_overviews"] = stats.get("admin_overviews", 0) + 1
            truth = {"connections": len(cur["conns"]), "channels": len(cur["chans"]), "queues": len(cur["queues"]),
                     "exchanges": len(cur["exchanges"]), "consumers": sum(len(ch["consumers"]) for ch in cur["chans"].values())}
            for k, v in truth.items():
                if k in adm and adm[k] != v:
                    viol.append({"step": i, "what": "admin overview reports %d %s, the broker holds %d (after `%s`)" % (adm[k], k, v, st["op"])})
        # (b) counts carried by replies
        if prev is not None:
            f = st["op"].split()
            for (c, h, name, args, tail) in frames_of(st):
                if name == "queue.declare-ok" and f[0] == "QD":
                    q = prev["queues"].get(args[0])
                    want = (len(q["ready"]), len(q["consumers"])) if q else (0, 0)
                    stats["count_replies"] = stats.get("count_replies", 0) + 1
                    if (int(args[1]), int(args[2])) != want:
                        viol.append({"step": i, "what": "declare-ok for %s says messages/consumers %s, truth %s" % (args[0], (args[1], args[2]), want)})
                elif name == "queue.purge-ok" and f[0] == "QP":
                    q = prev["queues"].get(f[3])
                    stats["count_replies"] = stats.get("count_replies", 0) + 1
                    if q is not None and int(args[0]) != len(q["ready"]):
                        viol.append({"step": i, "what": "purge-ok for %s says %s, %d messages were ready" % (f[3], args[0], len(q["ready"]))})
                elif name == "queue.delete-ok" and f[0] == "QDEL":
                    q = prev["queues"].get(f[3])
                    stats["count_replies"] = stats.get("count_replies", 0) + 1
                    if q is not None and int(args[0]) != len(q["ready"]):
                        viol.append({"step": i, "what": "delete-ok for %s says %s, %d messages were ready" % (f[3], args[0], len(q["ready"]))})
                elif name == "basic.get-ok" and f[0] == "GET":
                    q = prev["queues"].get(f[3])
                    stats["count_replies"] = stats.get("count_replies", 0) + 1
                    if q is not None and int(args[4]) != len(q["ready"]) - 1:
                        viol.append({"step": i, "what": "get-ok for %s says %s messages remain, truth %d" % (f[3], args[4], len(q["ready"]) - 1)})
                elif name == "basic.get-empty" and f[0] == "GET":
                    q = prev["queues"].get(f[3])
                    ch = prev["chans"].get((c, h))
                    cn = prev["conns"].get(c)
                    windows_idle = ch is not None and cn is not None and ch["qos"][:2] == [0, 0] and cn["qos"][:2] == [0, 0]
                    if q is not None and q["ready"] and (f[4] == "1" or windows_idle):
                        viol.append({"step": i, "what": "get-empty for %s although %d messages are ready and no prefetch window blocks" % (f[3], len(q["ready"]))})
        prev = cur
    return viol


def monitor_c15(se, stats):
    """Delivery tags start at 1 and grow by one per deliver / get-ok on a channel instance; ack / nack / reject settle
    exactly what they name on their own channel and nothing on any other."""
    viol = []
    nxt = {}
    prev = None
    for i, st in enumerate(se["steps"]):
        if st["snap"] == ["WEDGED"]:
            break
        cur = parse_snap(st["snap"])
        for (c, h, name, args, tail) in frames_of(st):
            if name == "channel.open-ok":
                nxt[(c, h)] = 0
            elif name in ("basic.deliver", "basic.get-ok"):
                tag = int(args[1] if name == "basic.deliver" else args[0])
                stats["deliveries"] = stats.get("deliveries", 0) + 1
                if tag != nxt.get((c, h), 0) + 1:
                    viol.append({"step": i, "what": "delivery tag %d on channel %d.%d, expected %d (after `%s`)" % (tag, c, h, nxt.get((c, h), 0) + 1, st["op"])})
                nxt[(c, h)] = tag
        f = st["op"].split()
        if prev is not None and f[0] in ("ACK", "NACK", "REJ") and not any(":channel.close(" in x or ":connection.close(" in x for x in st["frames"]):
            c, h, tag = int(f[1]), int(f[2]), int(f[3])
            mult = (f[4] == "1") if f[0] in ("ACK", "NACK") else False
            pch = prev["chans"].get((c, h))
            if pch is not None and pch["st"] == 1:
                stats["settles"] = stats.get("settles", 0) + 1
                before = {u["tag"]: u for u in pch["unacked"]}
                covered = {t for t in before if (mult and (tag == 0 or t <= tag)) or (not mult and t == tag)}
                after = {u["tag"]: u for u in cur["chans"].get((c, h), {"unacked": []})["unacked"]}
                gone = {t for t in before if t not in after}
                if gone != covered:
                    viol.append({"step": i, "what": "`%s` settled tags %s of channel %d.%d, it names %s" % (st["op"], sorted(gone), c, h, sorted(covered))})
                for key, och in prev["chans"].items():
                    if key == (c, h) or key not in cur["chans"]:
                        continue
                    otags = {u["tag"] for u in cur["chans"][key]["unacked"]}
                    lost = [u["tag"] for u in och["unacked"] if u["tag"] not in otags]
                    if lost:
                        viol.append({"step": i, "what": "`%s` on channel %d.%d removed deliveries %s of channel %d.%d" % (st["op"], c, h, lost, key[0], key[1])})
        prev = cur
    return viol


# ---------------------------------------------------------------- C01 / C02 / C03
def _deliveries(st, pre):
    """[(conn, chan, kind, uid, dtag, redelivered, queue, noack, exchange, key, header_size, pers, body_lens, corrupt)] of a step.
    queue / noack are resolved from the state before the step (consumer by tag) or from the GET op."""
    out = []
    fr = frames_of(st)
    f = st["op"].split()
    # the GET requests of the step per channel, in order (a pipelined step may carry several)
    subs = [x.strip().split() for x in st["op"][6:].split("|")] if f[0] == "MULTI" else [f]
    gets = {}
    for g in subs:
        if g[0] == "GET":
            gets.setdefault((int(g[1]), int(g[2])), []).append(g)
    i = 0
    while i < len(fr):
        c, h, name, args, tail = fr[i]
        if name == "basic.get-empty" and gets.get((c, h)):
            gets[(c, h)].pop(0)
        if name in ("basic.deliver", "basic.get-ok", "basic.return"):
            hdr = None
            bodies = []
            corrupt = False
            j = i + 1
            while j < len(fr) and fr[j][0] == c and fr[j][1] == h and fr[j][2] in ("header", "body"):
                if fr[j][2] == "header" and hdr is None:
                    hdr = fr[j][3]
                elif fr[j][2] == "body":
                    bodies.append(int(fr[j][3][1]))
                    corrupt = corrupt or ("CORRUPT" in fr[j][4])
                j += 1
            uid = hdr[0] if hdr else "?"
            rec = dict(conn=c, chan=h, kind=name, uid=uid, hsize=int(hdr[1]) if hdr else -1, pers=(hdr[2] == "1") if hdr else None,
                       bodies=bodies, corrupt=corrupt)
            if name == "basic.deliver":
                rec.update(ctag=args[0], dtag=int(args[1]), red=args[2] == "1", ex=args[3], key=args[4])
                q, noack = None, None
                for key, ch in (pre["chans"].items() if pre else []):
                    if key == (c, h):
                        for cm in ch["consumers"]:
                            if cm["tag"] == args[0]:
                                q, noack = cm["queue"], cm["noack"]
                if q is None and f[0] == "CONS" and (int(f[1]), int(f[2])) == (c, h) and (f[4] == args[0] or (f[4] == "-" and args[0].startswith("amq.gen-"))):
                    q, noack = de(f[3]), f[5] == "1"
                rec.update(queue=q, noack=noack)
            elif name == "basic.get-ok":
                g = gets[(c, h)].pop(0) if gets.get((c, h)) else None
                rec.update(dtag=int(args[0]), red=args[1] == "1", ex=args[2], key=args[3], queue=de(g[3]) if g else None,
                           noack=(g[4] == "1") if g else None)
            else:
                rec.update(code=int(args[0]), ex=args[1], key=args[2], queue=None, noack=None, red=False, dtag=None)
            out.append(rec)
            i = j
        else:
            i += 1
    return out



def _reborn(st, cur):
    """queue names whose queue object was deleted within this step (a pipelined delete + declare, or a restart): if the
    name is there afterwards it is a new queue.  Replies come in request order: the k-th request of a channel that
    expects a reply is answered by the k-th reply frame of that channel; a close ends the matching."""
    if st["op"] == "RESTART":
        return set(cur["queues"])
    subs = [x.strip().split() for x in st["op"][6:].split("|")] if st["op"].startswith("MULTI ") else [st["op"].split()]
    if not any(g and g[0] == "QDEL" for g in subs):
        return set()
    replies = {}
    closes = {}
    for (c, h, name, args, _) in frames_of(st):
        if name in REPLY_NAMES or name in ("channel.close", "connection.close"):
            replies.setdefault((c, h), []).append(name)
        if name == "channel.close" and len(args) >= 3:
            try:
                closes.setdefault((c, h), []).append((int(args[1]), int(args[2])))
            except ValueError:
                pass
    out = set()
    dead = set()
    for g in subs:
        if not g or g[0] not in REPLY_OF or len(g) < 3 or not g[1].isdigit():
            continue
        key = (int(g[1]), int(g[2]))
        if key in dead:
            continue
        if g[0] in NOWAIT_FIELD and len(g) > NOWAIT_FIELD[g[0]] and g[NOWAIT_FIELD[g[0]]] == "1":
            if g[0] == "QDEL":
                # no reply to tell.  It matters only if the name is declared again later in this step (otherwise the
                # queue is simply gone, or it survived a refusal); a refusal shows as a close naming queue.delete
                rs = replies.get(key, [])
                refused = bool(rs) and rs[0] == "channel.close" and (50, 40) in closes.get(key, [])
                k = subs.index(g)
                again = any(x and x[0] == "QD" and len(x) > 3 and x[3] == g[3] for x in subs[k + 1:])
                if again and not refused:
                    out.add(de(g[3]))
            continue
        rs = replies.get(key, [])
        if not rs:
            dead.add(key)
            continue
        r = rs.pop(0)
        if r in ("channel.close", "connection.close"):
            dead.add(key)
        elif g[0] == "QDEL" and r == "queue.delete-ok":
            out.add(de(g[3]))
    return out


def _births(st, i, cur, prev, qborn, uborn):
    """Queue incarnations: a queue name absent before, or deleted within this very step (a pipelined delete + declare),
    is a new queue object born at step i; an unsettled delivery is born at the step it first shows."""
    subs = [x.strip().split() for x in st["op"][6:].split("|")] if st["op"].startswith("MULTI ") else [st["op"].split()]
    deleted_now = {de(g[3]) for g in subs if g and g[0] == "QDEL" and len(g) > 3} if any(":queue.delete-ok" in fr for fr in st["frames"]) else set()
    if st["op"] == "RESTART":
        deleted_now = set(cur["queues"])
    for qn in cur["queues"]:
        if prev is None or qn not in prev["queues"] or qn in deleted_now:
            qborn[qn] = i
    live = set()
    for key, ch in cur["chans"].items():
        for u in ch["unacked"]:
            k = (key, u["tag"], u["uid"])
            live.add(k)
            uborn.setdefault(k, i)
    for k in list(uborn):
        if k not in live:
            del uborn[k]


def _held(snap, qborn, uborn, i):
    """per queue: (ready list, [(chan key, tag, uid)] unacked that belong to the current queue object)"""
    held = {}
    for qn, q in snap["queues"].items():
        held[qn] = (list(q["ready"]), [])
    for key, ch in snap["chans"].items():
        for u in ch["unacked"]:
            k = (key, u["tag"], u["uid"])
            if u["queue"] in held and uborn.get(k, i) >= qborn.get(u["queue"], 0):
                held[u["queue"]][1].append((key, u["tag"], u["uid"]))
    return held


def monitor_c01(se, stats):
    """No accepted message is lost: per queue, published-and-routed = settled + purged + still held (ready or unsettled)."""
    viol = []
    prev = None
    qborn, uborn = {}, {}
    for i, st in enumerate(se["steps"]):
        if st["snap"] == ["WEDGED"]:
            break
        cur = parse_snap(st["snap"])
        _rb = _reborn(st, cur)
        for qn in cur["queues"]:
            if prev is None or qn not in prev["queues"] or qn in _rb:
                qborn[qn] = i
        live = set()
        for key, ch in cur["chans"].items():
            for u in ch["unacked"]:
                k = (key, u["tag"], u["uid"])
                live.add(k)
                uborn.setdefault(k, i)
        if prev is not None:
            f = st["op"].split()
            # a queue that holds messages goes away only when something deletes it: queue.delete, the end of the
            # connection that owns it (exclusive), the loss of its last consumer (auto-delete), a restart (not durable)
            subs0 = [x.strip().split() for x in st["op"][6:].split("|")] if f[0] == "MULTI" else [f]
            for qn, pq in prev["queues"].items():
                if qn in cur["queues"] or not pq["ready"]:
                    continue
                explained = pq["ad"] or pq["excl"] or st["op"] == "RESTART" or \
                    any(g and g[0] == "QDEL" and len(g) > 3 and de(g[3]) == qn for g in subs0)
                stats["queues_gone"] = stats.get("queues_gone", 0) + 1
                if not explained:
                    viol.append({"step": i, "what": "queue %s vanished with its waiting messages %s although nothing deleted it (not auto-delete, not exclusive; after `%s`)" % (qn, pq["ready"], st["op"])})
            hp, hc = _held(prev, qborn, uborn, i), _held(cur, qborn, uborn, i)
            dels = _deliveries(st, prev)
            for qn in hc:
                if qn not in hp or qborn.get(qn) == i:
                    continue
                before = sorted(hp[qn][0] + [x[2] for x in hp[qn][1]])
                after = sorted(hc[qn][0] + [x[2] for x in hc[qn][1]])
                b, a = list(before), list(after)
                for x in list(a):
                    if x in b:
                        b.remove(x); a.remove(x)
                lost, gained = b, a
                stats["queue_transitions"] = stats.get("queue_transitions", 0) + 1
                subs = [x.strip().split() for x in st["op"][6:].split("|")] if f[0] == "MULTI" else [f]
                pub_uids = set()
                for g in subs:
                    if g[0] == "PUB":
                        pub_uids.add(g[8])
                    elif g[0] == "HDR":
                        pub_uids.add(g[5])
                for x in gained:
                    if x not in pub_uids:
                        viol.append({"step": i, "what": "message %s appeared in queue %s without being published to it (after `%s`)" % (x, qn, st["op"])})
                for x in lost:
                    ok = False
                    for g in subs:
                        if g[0] == "ACK":
                            ok = True
                        elif g[0] == "NACK" and g[5] == "0":
                            ok = True
                        elif g[0] == "REJ" and g[4] == "0":
                            ok = True
                        elif g[0] == "QP" and de(g[3]) == qn:
                            ok = True
                    if any(d["uid"] == x and d["noack"] for d in dels if d["kind"] != "basic.return" and d["queue"] == qn):
                        ok = True
                    if not ok:
                        viol.append({"step": i, "what": "message %s vanished from queue %s (it was %s) after `%s`" % (
                            x, qn, "waiting" if x in hp[qn][0] else "delivered and unsettled", st["op"])})
                if lost:
                    stats["settlements_seen"] = stats.get("settlements_seen", 0) + len(lost)
        for k in list(uborn):
            if k not in live:
                del uborn[k]
        prev = cur
    return viol


def monitor_c02(se, stats):
    """No phantom or duplicate deliveries; redeliveries are flagged; content arrives as published."""
    viol = []
    prev = None
    published = {}          # uid -> (exchange, key, size, pers, body lens)
    delivered_from = {}     # (uid, queue, birth) -> count of deliveries
    settled = set()         # (uid, queue, birth) settled for good
    qborn = {}
    for i, st in enumerate(se["steps"]):
        if st["snap"] == ["WEDGED"]:
            break
        cur = parse_snap(st["snap"])
        f = st["op"].split()
        _rb = _reborn(st, cur)
        for qn in cur["queues"]:
            if prev is None or qn not in prev["queues"] or qn in _rb:
                if st["op"] == "RESTART" and prev is not None and qn in prev["queues"]:
                    # a durable queue that comes back from a (graceful) restart is, for its messages, the queue it was:
                    # what was settled stays settled, what was delivered before is a redelivery now
                    ob = qborn.get(qn, 0)
                    for (uid, q2, b) in list(settled):
                        if q2 == qn and b == ob:
                            settled.add((uid, qn, i))
                    for (uid, q2, b), n in list(delivered_from.items()):
                        if q2 == qn and b == ob:
                            delivered_from[(uid, qn, i)] = n
                    stats["queues_followed_over_restart"] = stats.get("queues_followed_over_restart", 0) + 1
                qborn[qn] = i
        for g in ([x.strip().split() for x in st["op"][6:].split("|")] if f[0] == "MULTI" else [f]):
            if g[0] == "PUB":
                lens = [] if g[9] in ("0", "-") else [int(x) for x in g[9].split("+")]
                published[g[8]] = (de(g[3]), de(g[4]), sum(lens), g[7] == "1", lens)
        dels = _deliveries(st, prev)
        for d in dels:
            stats["deliveries_checked"] = stats.get("deliveries_checked", 0) + 1
            uid = d["uid"]
            if uid not in published:
                viol.append({"step": i, "what": "delivery of a message that was never published (uid %s) after `%s`" % (uid, st["op"])})
                continue
            ex, key, size, pers, lens = published[uid]
            if d["corrupt"] or d["hsize"] != size or sum(d["bodies"]) != size or d["pers"] != pers or d["ex"] != ex or d["key"] != key:
                viol.append({"step": i, "what": "message %s delivered altered: exchange/key %s/%s size %d bodies %s persistent %s corrupt %s, published %s/%s size %d persistent %s" % (
                    uid, d["ex"], d["key"], d["hsize"], d["bodies"], d["pers"], d["corrupt"], ex, key, size, pers)})
            if d["kind"] == "basic.return" or d["queue"] is None:
                continue
            k = (uid, d["queue"], qborn.get(d["queue"], 0))
            if k in settled:
                viol.append({"step": i, "what": "message %s delivered again from queue %s after it had been settled (after `%s`)" % (uid, d["queue"], st["op"])})
            n = delivered_from.get(k, 0)
            if n > 0 and not d["red"]:
                viol.append({"step": i, "what": "message %s redelivered from queue %s without the redelivered flag (after `%s`)" % (uid, d["queue"], st["op"])})
            if prev is not None and n > 0:
                # a second delivery needs the first to have been returned: it may not still be unsettled from before this step
                # unless this very step returned it (nack/reject requeue, channel or connection end)
                still = [u for ch in prev["chans"].values() for u in ch["unacked"] if u["uid"] == uid and u["queue"] == d["queue"]]
                if still and f[0] not in ("NACK", "REJ", "CHCLOSE", "CHCLOSEOK", "DROP", "CLOSE", "CLOSEOK"):
                    viol.append({"step": i, "what": "message %s delivered from queue %s while an earlier delivery of it is still unsettled (after `%s`)" % (uid, d["queue"], st["op"])})
            delivered_from[k] = n + 1
            if d["noack"]:
                settled.add(k)
        # settlements by this step: entries that left an unacked list through ack / reject without requeue
        if prev is not None and f[0] in ("ACK", "NACK", "REJ"):
            requeue = (f[0] == "NACK" and f[5] == "1") or (f[0] == "REJ" and f[4] == "1")
            if not requeue and not any(":channel.close(" in x for x in st["frames"]):
                c, h = int(f[1]), int(f[2])
                pch, cch = prev["chans"].get((c, h)), cur["chans"].get((c, h))
                if pch and cch:
                    left = {(u["tag"], u["uid"], u["queue"]) for u in pch["unacked"]} - {(u["tag"], u["uid"], u["queue"]) for u in cch["unacked"]}
                    for (_, uid, qn) in left:
                        settled.add((uid, qn, qborn.get(qn, 0)))
        if prev is not None and f[0] == "QP" and any(":queue.purge-ok" in x for x in st["frames"]):
            qn = de(f[3])
            for uid in prev["queues"].get(qn, {"ready": []})["ready"]:
                settled.add((uid, qn, qborn.get(qn, 0)))
        # at most one holder per copy
        holders = {}
        for qn, q in cur["queues"].items():
            for uid in q["ready"]:
                holders[(uid, qn)] = holders.get((uid, qn), 0) + 1
        for key, ch in cur["chans"].items():
            for u in ch["unacked"]:
                if u["queue"] in cur["queues"]:
                    holders[(u["uid"], u["queue"])] = holders.get((u["uid"], u["queue"]), 0) + 1
        for (uid, qn), n in holders.items():
            if n > 1 and uid != "?":
                # an orphan of a deleted queue of the same name may coexist with a copy in the new queue
                viol.append({"step": i, "what": "message %s has %d holders in queue %s at once (after `%s`)" % (uid, n, qn, st["op"])})
        prev = cur
    return viol


def monitor_c03(se, stats):
    """Per-queue FIFO: first deliveries of one publisher channel's messages leave a queue in publication order; a batch
    returned together comes back ahead of the waiting messages, in delivery order."""
    viol = []
    prev = None
    pub = {}             # uid -> (publisher (c,h), step)
    first = {}           # (queue, birth) -> list of (uid) in first-delivery order
    seen = set()
    qborn, uborn = {}, {}
    for i, st in enumerate(se["steps"]):
        if st["snap"] == ["WEDGED"]:
            break
        cur = parse_snap(st["snap"])
        f = st["op"].split()
        puborn, pqborn = dict(uborn), dict(qborn)
        _births(st, i, cur, prev, qborn, uborn)
        for gi, g in enumerate([x.strip().split() for x in st["op"][6:].split("|")] if f[0] == "MULTI" else [f]):
            if g[0] == "PUB":
                pub[g[8]] = ((int(g[1]), int(g[2])), i * 100 + gi)
        dels = [d for d in _deliveries(st, prev) if d["kind"] != "basic.return" and d["queue"]]
        for d in dels:
            k = (d["queue"], qborn.get(d["queue"], 0))
            if (d["uid"], k) in seen or d["uid"] not in pub:
                continue
            seen.add((d["uid"], k))
            stats["first_deliveries"] = stats.get("first_deliveries", 0) + 1
            p, ps = pub[d["uid"]]
            for (other, ostep, oconn) in first.get(k, []):
                op_, os_ = pub[other]
                # "before" must be observable: an earlier step, or earlier in the byte stream of the same connection
                # (two receivers on different connections served within one step are not ordered by what they see)
                if op_ == p and os_ > ps and (ostep < i or oconn == d["conn"]):
                    viol.append({"step": i, "what": "queue %s: message %s (published later on channel %s) was first delivered before message %s (after `%s`)" % (
                        d["queue"], other, p, d["uid"], st["op"])})
            first.setdefault(k, []).append((d["uid"], i, d["conn"]))
        # batch return order (only where the outcome does not depend on goroutine timing)
        if prev is not None and se.get("kind") == "exact" and f[0] in ("NACK", "CHCLOSE", "CHCLOSEOK", "DROP", "CLOSE"):
            c = int(f[1])
            chans = [(c, int(f[2]))] if f[0] in ("NACK", "CHCLOSE", "CHCLOSEOK") else sorted([k for k in prev["chans"] if k[0] == c], reverse=True)
            if f[0] == "NACK" and not (f[4] == "1" and f[5] == "1"):
                chans = []
            if f[0] == "NACK" and chans and prev["chans"].get(chans[0], {"st": 1})["st"] != 1:
                chans = []      # the channel is closing (the broker closed it): the frame is discarded, nothing returns
            if f[0] == "CHCLOSEOK" and prev["chans"].get(chans[0], {"st": 0})["st"] != 2:
                chans = []
            if any(":channel.close(" in x or ":connection.close(" in x for x in st["frames"]):
                chans = []
            for qn, q in prev["queues"].items():
                block = []
                for key in chans:            # connection teardown closes the highest channel first: its block ends up behind
                    pch = prev["chans"].get(key)
                    if not pch:
                        continue
                    upto = int(f[3]) if f[0] == "NACK" else 0
                    # only deliveries made from the queue object that exists now (its predecessor of the same name is gone)
                    mine = [u for u in sorted(pch["unacked"], key=lambda u: u["tag"]) if u["queue"] == qn and (upto == 0 or u["tag"] <= upto)
                            and puborn.get((key, u["tag"], u["uid"]), i) >= pqborn.get(qn, 0)]
                    block = [u["uid"] for u in mine] + block
                if not block or qn not in cur["queues"]:
                    continue
                got = [d["uid"] for d in dels if d["queue"] == qn] + cur["queues"][qn]["ready"]
                want = block + q["ready"]
                stats["batch_returns"] = stats.get("batch_returns", 0) + 1
                if got != want:
                    viol.append({"step": i, "what": "queue %s after `%s`: returned batch + waiting messages leave as %s, expected %s" % (qn, st["op"], got, want)})
        prev = cur
    return viol


def monitor_c14(se, stats):
    """Closing a channel or losing a connection releases everything it held."""
    viol = []
    prev = None
    qborn, uborn = {}, {}
    for i, st in enumerate(se["steps"]):
        if st["snap"] == ["WEDGED"]:
            viol.append({"step": i, "what": "the broker stopped answering (teardown or handler wedged) after `%s`: %s" % (st["op"], st.get("note"))})
            break
        cur = parse_snap(st["snap"])
        f = st["op"].split()
        _rb = _reborn(st, cur)
        for qn in cur["queues"]:
            if prev is None or qn not in prev["queues"] or qn in _rb:
                qborn[qn] = i
        for key, ch in cur["chans"].items():
            for u in ch["unacked"]:
                uborn.setdefault((key, u["tag"], u["uid"]), i)
        # global consistency: the consumers a queue lists are exactly the live consumers registered on channels for it
        want = {}
        for key, ch in cur["chans"].items():
            for cm in ch["consumers"]:
                if cm["status"] != 1:
                    want.setdefault(cm["queue"], []).append("%d.%d:%s" % (key[0], key[1], cm["tag"]))
        for qn, q in cur["queues"].items():
            stats["queue_consumer_lists"] = stats.get("queue_consumer_lists", 0) + 1
            if sorted(q["consumers"]) != sorted(want.get(qn, [])):
                viol.append({"step": i, "what": "queue %s lists consumers %s but the live consumers on channels are %s (after `%s`)" % (
                    qn, sorted(q["consumers"]), sorted(want.get(qn, [])), st["op"])})
        if prev is not None:
            # a queue that has consumers is deleted only by queue.delete (which cancels them) or together with the last of
            # them: a step that ends no consumer of the queue and does not delete it leaves it in place
            subs14 = [x.strip().split() for x in st["op"][6:].split("|")] if f[0] == "MULTI" else [f]
            ends_something = any(g and g[0] in ("QDEL", "CANCEL", "CHCLOSE", "CHCLOSEOK", "DROP", "CLOSE", "CLOSEOK", "RESTART", "IDLE", "RAW", "BADM") for g in subs14) or \
                any(":channel.close(" in x or ":connection.close(" in x or x.endswith(":GONE") for x in st["frames"])
            for qn, q in prev["queues"].items():
                if q["consumers"] and qn not in cur["queues"] and not ends_something:
                    viol.append({"step": i, "what": "queue %s was deleted while it had consumers %s and nothing ended them (after `%s`)" % (qn, q["consumers"], st["op"])})
            # content frames that arrive on a channel that is closed complete nothing: whatever publish was being assembled
            # went with the channel
            if f[0] in ("HDR", "BODY") and prev["chans"].get((int(f[1]), int(f[2])), {"st": 1})["st"] == 3:
                stats["content_on_closed_channel"] = stats.get("content_on_closed_channel", 0) + 1
                for qn, q in cur["queues"].items():
                    pq = prev["queues"].get(qn)
                    if pq is not None and len(q["ready"]) > len(pq["ready"]):
                        viol.append({"step": i, "what": "a content frame on the closed channel %s.%s put a message into queue %s (after `%s`)" % (f[1], f[2], qn, st["op"])})
            ended_conn = None
            if f[0] in ("DROP", "CLOSE", "CLOSEOK"):
                ended_conn = int(f[1])
            closed_chan = None
            if f[0] == "CHCLOSE" or (f[0] == "CHCLOSEOK" and prev["chans"].get((int(f[1]), int(f[2])), {"st": 0})["st"] == 2):
                closed_chan = (int(f[1]), int(f[2]))
            scope = []
            if ended_conn is not None:
                stats["connection_ends"] = stats.get("connection_ends", 0) + 1
                if ended_conn in cur["conns"]:
                    viol.append({"step": i, "what": "connection %d still known to the broker after `%s`" % (ended_conn, st["op"])})
                if not any(x == "%d.0:GONE" % ended_conn for x in st["frames"]) and "TIMEOUT" in (st.get("note") or ""):
                    viol.append({"step": i, "what": "the socket of connection %d was not closed after `%s`" % (ended_conn, st["op"])})
                scope = [k for k in prev["chans"] if k[0] == ended_conn]
                for qn, q in prev["queues"].items():
                    if q["excl"] and q["owner"] == ended_conn and qn in cur["queues"] and cur["queues"][qn]["owner"] == ended_conn:
                        viol.append({"step": i, "what": "exclusive queue %s of connection %d survives `%s`" % (qn, ended_conn, st["op"])})
            elif closed_chan is not None:
                stats["channel_closes"] = stats.get("channel_closes", 0) + 1
                scope = [closed_chan]
                ch = cur["chans"].get(closed_chan)
                if ch is not None:
                    if ch["consumers"] or ch["unacked"]:
                        viol.append({"step": i, "what": "channel %s keeps consumers %s / unsettled deliveries %s after `%s`" % (
                            closed_chan, [c_["tag"] for c_ in ch["consumers"]], [u["tag"] for u in ch["unacked"]], st["op"])})
                    if ch["qos"][2:] != [0, 0]:
                        viol.append({"step": i, "what": "channel %s still has prefetch accounting %s after `%s`" % (closed_chan, ch["qos"], st["op"])})
            if scope:
                # every unsettled delivery of the scope is back in its queue (or was handed on at once), unless the queue is gone
                dels = _deliveries(st, prev)
                for key in scope:
                    for u in prev["chans"][key]["unacked"]:
                        qn = u["queue"]
                        if qn not in cur["queues"] or qn not in prev["queues"]:
                            continue
                        if uborn.get((key, u["tag"], u["uid"]), i) < qborn.get(qn, 0):
                            continue      # delivered from an earlier queue object of that name, which was deleted
                        back = u["uid"] in cur["queues"][qn]["ready"] or any(d["uid"] == u["uid"] and d["queue"] == qn for d in dels if d["kind"] != "basic.return")
                        back = back or any(x["uid"] == u["uid"] and x["queue"] == qn for ch2 in cur["chans"].values() for x in ch2["unacked"])
                        # an orphan of an earlier queue object of that name does not return
                        if not back and u["uid"] != "?":
                            viol.append({"step": i, "what": "unsettled delivery of message %s (queue %s) held by %s did not return after `%s`" % (u["uid"], qn, key, st["op"])})
                # auto-delete queues whose last consumers were in the scope are deleted
                for qn, q in prev["queues"].items():
                    if q["ad"] and q["consumers"]:
                        owners = [key for key, ch in prev["chans"].items() for cm in ch["consumers"] if cm["queue"] == qn and cm["status"] != 1]
                        if owners and all(o in scope for o in owners) and qn in cur["queues"]:
                            viol.append({"step": i, "what": "auto-delete queue %s lost its last consumer through `%s` but still exists" % (qn, st["op"])})
        prev = cur
    return viol


REPLY_OF = {"CH": "channel.open-ok", "CHCLOSE": "channel.close-ok", "FLOW": "channel.flow-ok", "XD": "exchange.declare-ok",
            "QD": "queue.declare-ok", "QB": "queue.bind-ok", "QU": "queue.unbind-ok", "QP": "queue.purge-ok", "QDEL": "queue.delete-ok",
            "QOS": "basic.qos-ok", "CONS": "basic.consume-ok", "CANCEL": "basic.cancel-ok", "GET": ("basic.get-ok", "basic.get-empty"),
            "CONFIRM": "confirm.select-ok", "CLOSE": "connection.close-ok"}
NOWAIT_FIELD = {"XD": 9, "QD": 8, "QB": 7, "QP": 4, "QDEL": 6, "CONS": 7, "CANCEL": 4, "CONFIRM": 3}
REPLY_NAMES = {"channel.open-ok", "channel.close-ok", "channel.flow-ok", "exchange.declare-ok", "exchange.delete-ok", "queue.declare-ok",
               "queue.bind-ok", "queue.unbind-ok", "queue.purge-ok", "queue.delete-ok", "basic.qos-ok", "basic.consume-ok",
               "basic.cancel-ok", "basic.get-ok", "basic.get-empty", "confirm.select-ok", "connection.close-ok"}


def monitor_c18(se, stats):
    """Every synchronous request gets exactly one reply of the right kind on its own channel, or one close naming it;
    no-wait requests and requests without a reply get none; unsupported methods get NOT_IMPLEMENTED."""
    viol = []
    prev = None
    for i, st in enumerate(se["steps"]):
        if st["snap"] == ["WEDGED"]:
            viol.append({"step": i, "what": "no reply: the broker stopped answering after `%s` (%s)" % (st["op"], st.get("note"))})
            break
        subs = [x.strip() for x in st["op"][6:].split("|")] if st["op"].startswith("MULTI ") else [st["op"]]
        fr = frames_of(st)
        pre = prev
        expected = []          # per sub-request: set of acceptable reply names, or None (no reply expected), for the channel
        judgeable = pre is not None
        for op in subs:
            f = op.split()
            if f[0] in ("OPEN", "DROP", "CLOSEOK", "CHCLOSEOK", "PUB", "PUBM", "HDR", "BODY", "ACK", "NACK", "REJ"):
                continue
            if f[0] == "CLOSE":
                expected.append((int(f[1]), 0, {"connection.close-ok"}, op))
                continue
            if f[0] not in REPLY_OF and f[0] not in ("TXSELECT", "RECOVER", "XDEL"):
                continue
            c, h = int(f[1]), int(f[2])
            if len(subs) == 1 and judgeable:
                exp = expected_refusal(op, pre)
            else:
                exp = "unknown"
            if exp == "discarded":
                expected.append((c, h, set(), op))
            elif exp in (None, "maybe406") and f[0] in REPLY_OF:
                nw = f[0] in NOWAIT_FIELD and f[NOWAIT_FIELD[f[0]]] == "1"
                r = REPLY_OF[f[0]]
                names = set(r) if isinstance(r, tuple) else {r}
                if exp == "maybe406":
                    names = names | {"channel.close"}
                    if nw:
                        names = names | {None}
                expected.append((c, h, ({None} if nw and exp is None else names), op))
            elif exp == "unknown":
                expected.append((c, h, "any", op))
            else:
                expected.append((c, h, {"channel.close" if exp[0] == "ch" else "connection.close"}, op))
        # observed: reply frames and closes, per (conn, chan), in order
        for (c, h, want, op) in expected:
            stats["requests_judged"] = stats.get("requests_judged", 0) + 1
        by_chan = {}
        for (c, h, name, args, tail) in fr:
            if name in REPLY_NAMES or name in ("channel.close", "connection.close"):
                by_chan.setdefault(c, []).append((h, name))
        for c in set(x[0] for x in expected):
            exp_c = [x for x in expected if x[0] == c]
            got = list(by_chan.get(c, []))
            for (_, h, want, op) in exp_c:
                if want == "any":
                    # pipelined: at most one reply or close per request; consume one if it is on this channel
                    if got and (got[0][0] == h or got[0][1] == "connection.close"):
                        got.pop(0)
                    continue
                if want == set() or want == {None}:
                    continue
                if not got:
                    if None in want:
                        continue
                    viol.append({"step": i, "what": "request `%s` got no reply (expected %s)" % (op, sorted(x for x in want if x)), })
                    break
                gh, gname = got[0]
                if gname in want and (gh == h or gname == "connection.close"):
                    got.pop(0)
                elif None in want:
                    continue
                else:
                    viol.append({"step": i, "what": "request `%s` answered by %s on channel %d (expected %s on channel %d)" % (op, gname, gh, sorted(x for x in want if x), h)})
                    break
            else:
                if got and not any(x[2] == "any" for x in exp_c):
                    viol.append({"step": i, "what": "unsolicited reply frames %s after `%s`" % (got, st["op"])})
        if st["snap"] != ["WEDGED"]:
            prev = parse_snap(st["snap"])
    return viol


def monitor_c13(se, stats):
    """The frames each connection receives form a valid, uninterleaved sequence per channel: a content-bearing method is
    followed on its channel by its header and exactly body-size bytes of body frames, nothing of that channel in between;
    no channel above channel-max, no frame above frame-max, nothing after connection.close-ok / the socket close."""
    viol = []
    state = {}       # (conn, chan) -> ("idle",) | ("header",) | ("body", remaining)
    dead = set()     # connections that sent close-ok or were closed
    CHANNEL_MAX, FRAME_MAX = 2047, 65536
    fmax = {}        # connection -> frame-max it negotiated in an accepted tune-ok (0 = no limit of its own)
    for i, st in enumerate(se["steps"]):
        f = st["op"].split()
        if len(f) >= 5 and f[0] == "TUNEOK" and f[2] == "1":
            try:
                if 0 < int(f[4]) <= FRAME_MAX:
                    fmax[int(f[1])] = int(f[4])
                    stats["negotiated_frame_max"] = sorted(set(stats.get("negotiated_frame_max", []) + [int(f[4])]))
            except ValueError:
                pass
        elif f and f[0] in ("OPEN", "ACCEPT") and len(f) > 1 and f[1].isdigit():
            fmax.pop(int(f[1]), None)     # a new connection under a reused number starts from the server's limit
        for (c, h, name, args, tail) in frames_of(st):
            stats["frames"] = stats.get("frames", 0) + 1
            if name == "GONE":
                dead.add(c)
                continue
            if c in dead:
                viol.append({"step": i, "what": "frame %s on connection %d after its close-ok / socket close (after `%s`)" % (name, c, st["op"])})
                continue
            if h > CHANNEL_MAX:
                viol.append({"step": i, "what": "frame on channel %d above the negotiated channel-max %d" % (h, CHANNEL_MAX)})
            cur = state.get((c, h), ("idle",))
            if "TRUNCATED" in tail:
                viol.append({"step": i, "what": "frame %s on %d.%d does not parse (truncated payload)" % (name, c, h)})
            if name == "header":
                if cur[0] != "header":
                    viol.append({"step": i, "what": "content header on %d.%d without a content-bearing method before it (after `%s`)" % (c, h, st["op"])})
                state[(c, h)] = ("body", int(args[1]))
            elif name == "body":
                n = int(args[1])
                if n + 8 > fmax.get(c, FRAME_MAX):
                    viol.append({"step": i, "what": "body frame of %d bytes (%d on the wire) on %d.%d exceeds the frame-max %d this connection negotiated (after `%s`)" % (n, n + 8, c, h, fmax.get(c, FRAME_MAX), st["op"])})
                if n + 8 > 4096:
                    stats["body_frames_above_4096"] = stats.get("body_frames_above_4096", 0) + 1
                if cur[0] != "body" or n > cur[1] or n == 0 and cur[1] == 0:
                    viol.append({"step": i, "what": "body frame of %d bytes on %d.%d outside a content block / beyond the announced size (state %s, after `%s`)" % (n, c, h, cur, st["op"])})
                    state[(c, h)] = ("idle",)
                else:
                    state[(c, h)] = ("body", cur[1] - n)
            else:
                if cur[0] == "header" or (cur[0] == "body" and cur[1] != 0):
                    viol.append({"step": i, "what": "frame %s on %d.%d interrupts a content block (%s, after `%s`)" % (name, c, h, cur, st["op"])})
                if name in ("basic.deliver", "basic.get-ok", "basic.return"):
                    state[(c, h)] = ("header",)
                    stats["content_blocks"] = stats.get("content_blocks", 0) + 1
                else:
                    state[(c, h)] = ("idle",)
                if name == "connection.close-ok":
                    dead.add(c)
        # at quiescence no block may be left open
        for key, cur in state.items():
            if key[0] not in dead and (cur[0] == "header" or (cur[0] == "body" and cur[1] != 0)):
                viol.append({"step": i, "what": "content block on %d.%d left incomplete at quiescence (%s, after `%s`)" % (key[0], key[1], cur, st["op"])})
                state[key] = ("idle",)
    return viol


def monitor_c06(se, stats):
    """Prefetch: every limited window counts exactly the unsettled deliveries charged to it (count and bytes); a delivery
    under a limit N>0 is made only while fewer than N are outstanding; no-ack deliveries charge nothing."""
    viol = []
    rabbit = se["cfg"].get("rabbit", True)
    sizes = {}
    prev = None
    for i, st in enumerate(se["steps"]):
        if st["snap"] == ["WEDGED"]:
            break
        cur = parse_snap(st["snap"])
        subs = [x.strip() for x in st["op"][6:].split("|")] if st["op"].startswith("MULTI ") else [st["op"]]
        for op in subs:
            f = op.split()
            if f[0] == "PUB":
                sizes[f[8]] = sum(int(x) for x in f[9].split("+")) if f[9] not in ("0", "-") else 0
        # ledger at quiescence
        conn_tot = {}
        for key, ch in cur["chans"].items():
            n = len(ch["unacked"])
            b = sum(sizes.get(u["uid"], 0) for u in ch["unacked"])
            conn_tot[key[0]] = (conn_tot.get(key[0], (0, 0))[0] + n, conn_tot.get(key[0], (0, 0))[1] + b)
            stats["windows_checked"] = stats.get("windows_checked", 0) + 1
            if ch["st"] in (1, 2) and (ch["qos"][2], ch["qos"][3]) != (n, b):
                viol.append({"step": i, "what": "channel %d.%d window says count/bytes %s but %d deliveries / %d bytes are unsettled (after `%s`)" % (
                    key[0], key[1], (ch["qos"][2], ch["qos"][3]), n, b, st["op"])})
            if rabbit:
                for cm in ch["consumers"]:
                    if cm["own"] is None or cm["status"] == 1:
                        continue
                    mine = [u for u in ch["unacked"] if u["ctag"] == cm["tag"]]
                    nb = (len(mine), sum(sizes.get(u["uid"], 0) for u in mine))
                    if (cm["own"][2], cm["own"][3]) != nb:
                        viol.append({"step": i, "what": "consumer %s on %d.%d window says %s but its unsettled deliveries are %s (after `%s`)" % (
                            cm["tag"], key[0], key[1], (cm["own"][2], cm["own"][3]), nb, st["op"])})
        if not rabbit:
            for c, cn in cur["conns"].items():
                if (cn["qos"][2], cn["qos"][3]) != conn_tot.get(c, (0, 0)):
                    viol.append({"step": i, "what": "connection %d window says %s but its channels hold %s unsettled (after `%s`)" % (
                        c, (cn["qos"][2], cn["qos"][3]), conn_tot.get(c, (0, 0)), st["op"])})
        # admission: deliveries of this step under a limit
        if prev is not None:
            dels = [d for d in _deliveries(st, prev) if d["kind"] != "basic.return"]
            count = {}
            for d in dels:
                if d["noack"] or d["noack"] is None:
                    continue
                key = (d["conn"], d["chan"])
                pch = prev["chans"].get(key)
                cch = cur["chans"].get(key)
                if not pch or not cch:
                    continue
                stats["limited_deliveries"] = stats.get("limited_deliveries", 0) + (1 if cch["qos"][0] else 0)
                lim = cch["qos"][0]
                if lim and pch["qos"][0] == lim:
                    # outstanding on this channel right after this delivery may not exceed the limit
                    count[key] = count.get(key, 0) + 1
                    settled_now = len([u for u in pch["unacked"] if u["tag"] not in {x["tag"] for x in cch["unacked"]}])
                    if len(cch["unacked"]) > lim:
                        viol.append({"step": i, "what": "channel %d.%d has %d unsettled deliveries under prefetch-count %d (after `%s`)" % (
                            key[0], key[1], len(cch["unacked"]), lim, st["op"])})
        prev = cur
    return viol


def _admits(w, size):
    """qos window [prefetch-count, prefetch-size, count, size] has room for one more delivery of `size` bytes
    (qos.go Inc: 0 = unlimited)"""
    pc, ps, cc, cs = w
    return (pc == 0 or cc + 1 <= pc) and (ps == 0 or cs + size <= ps)


def monitor_c07(se, stats):
    """No stall: at quiescence (no wake-up token pending, nothing in flight - the harness only snapshots then) no queue
    shows a waiting message together with a started consumer on an open, flow-active channel whose windows all admit
    that message."""
    viol = []
    rabbit = se["cfg"].get("rabbit", True)
    sizes = {}
    for i, st in enumerate(se["steps"]):
        if st["snap"] == ["WEDGED"]:
            break
        subs = [x.strip() for x in st["op"][6:].split("|")] if st["op"].startswith("MULTI ") else [st["op"]]
        for op in subs:
            f = op.split()
            if f[0] == "PUB":
                sizes[f[8]] = sum(int(x) for x in f[9].split("+")) if f[9] not in ("0", "-") else 0
        cur = parse_snap(st["snap"])
        for qn, q in cur["queues"].items():
            stats["queue_states"] = stats.get("queue_states", 0) + 1
            if not q["ready"] or not q["active"]:
                continue
            stats["queue_states_with_ready"] = stats.get("queue_states_with_ready", 0) + 1
            head = q["ready"][0]
            size = sizes.get(head, 0)
            for ent in q["consumers"]:
                ch_s, tag = ent.split(":", 1)
                c, h = (int(x) for x in ch_s.split("."))
                ch = cur["chans"].get((c, h))
                if ch is None or ch["st"] != 1 or not ch["flow"]:
                    continue
                cm = next((x for x in ch["consumers"] if x["tag"] == tag and x["queue"] == qn), None)
                if cm is None or cm["status"] != 0:
                    continue
                stats["pairs_checked"] = stats.get("pairs_checked", 0) + 1
                if cm["noack"]:
                    room = True
                else:
                    ws = [ch["qos"], cm["own"]] if rabbit and cm["own"] is not None else [ch["qos"], cur["conns"].get(c, {"qos": [0, 0, 0, 0]})["qos"]]
                    room = all(_admits(w, size) for w in ws)
                    if not room:
                        stats["pairs_blocked_by_window"] = stats.get("pairs_blocked_by_window", 0) + 1
                if room:
                    viol.append({"step": i, "kind": "stall", "what": "stall: queue %s holds %d waiting message(s) (head %s, %d bytes) while consumer %s on channel %d.%d is started, flow on, windows %s admit it - and the broker is idle (after `%s`)" % (
                        qn, len(q["ready"]), head, size, tag, c, h, "n/a" if cm["noack"] else ws, st["op"])})
    return viol


def monitor_c05(se, stats):
    """Publisher confirms: per channel instance in confirm mode, the n-th accepted publish since confirm.select is owed
    exactly one acknowledgement numbered n (a multiple-ack counts for every number it covers); none for a number that
    was not published; at quiescence, while the channel is open, nothing is owed."""
    viol = []
    inst = {}   # (c,h) -> {"n": publishes numbered so far, "acked": set(), "on": bool}
    prev = None
    for i, st in enumerate(se["steps"]):
        if st["snap"] == ["WEDGED"]:
            break
        cur = parse_snap(st["snap"])
        subs = [x.strip() for x in st["op"][6:].split("|")] if st["op"].startswith("MULTI ") else [st["op"]]
        multi = len(subs) > 1
        fr = frames_of(st)
        touched = set()
        for op in subs:
            f = op.split()
            if f[0] in ("CH",):
                inst[(int(f[1]), int(f[2]))] = {"n": 0, "acked": set(), "on": False}
            elif f[0] in ("CHCLOSE", "CHCLOSEOK"):
                inst.pop((int(f[1]), int(f[2])), None)
            elif f[0] in ("DROP", "CLOSE", "CLOSEOK", "OPEN"):
                for k in [k for k in inst if k[0] == int(f[1])]:
                    inst.pop(k)
            elif f[0] == "CONFIRM":
                k = (int(f[1]), int(f[2]))
                if k in inst:
                    inst[k]["on"] = True
            elif f[0] == "PUB":
                k = (int(f[1]), int(f[2]))
                if k in inst and inst[k]["on"]:
                    touched.add(k)
                    inst[k]["pubs_this_step"] = inst[k].get("pubs_this_step", 0) + 1
            elif f[0] in ("PUBM", "HDR", "BODY"):
                # split publishes: numbering follows the broker's own counter (checked against the model by T1)
                k = (int(f[1]), int(f[2]))
                if k in inst:
                    inst[k]["loose"] = True
        # a channel or connection the broker closed in this step ends its instances
        for (c, h, name, args, _) in fr:
            if name == "channel.close":
                inst.pop((c, h), None)
            if name in ("connection.close", "GONE"):
                for k in [k for k in inst if k[0] == c]:
                    inst.pop(k)
        for k, it in list(inst.items()):
            ch = cur["chans"].get(k)
            if ch is None or ch["st"] != 1:
                inst.pop(k)
                continue
            if not ch["confirm"]:
                it["on"] = False
                it.pop("pubs_this_step", None)
                continue
            # numbering: every accepted publish of the step takes the next number; the broker's counter must agree
            p = it.pop("pubs_this_step", 0)
            if it.get("loose") or multi:
                it["n"] = ch["ctag"]
            else:
                it["n"] += p
                if ch["ctag"] != it["n"]:
                    viol.append({"step": i, "kind": "numbering", "what": "channel %d.%d: %d publishes since confirm.select but the broker's sequence counter says %d (after `%s`)" % (k[0], k[1], it["n"], ch["ctag"], st["op"])})
                    it["n"] = ch["ctag"]
            stats["confirm_publishes"] = stats.get("confirm_publishes", 0) + p
        # acks of this step
        for (c, h, name, args, _) in fr:
            if name != "basic.ack":
                continue
            k = (c, h)
            t, mult = int(args[0]), args[1] == "1"
            stats["acks_seen"] = stats.get("acks_seen", 0) + 1
            it = inst.get(k)
            if it is None:
                # the channel instance ended within this step (close raced the ack): nothing to attribute it to
                pch = prev["chans"].get(k) if prev else None
                if pch is None or not pch["confirm"]:
                    viol.append({"step": i, "kind": "unpublished", "what": "basic.ack(%d) on channel %d.%d which is not a confirm-mode channel instance (after `%s`)" % (t, c, h, st["op"])})
                continue
            covered = [x for x in range(1, t + 1) if x not in it["acked"]] if mult else [t]
            if t > it["n"] or t < 1:
                viol.append({"step": i, "kind": "unpublished", "what": "channel %d.%d: basic.ack(%d) but only %d publishes were made on this channel instance since confirm.select (after `%s`)" % (c, h, t, it["n"], st["op"])})
                continue
            for x in covered:
                if x in it["acked"]:
                    viol.append({"step": i, "kind": "duplicate", "what": "channel %d.%d: publish %d acknowledged twice (after `%s`)" % (c, h, x, st["op"])})
                it["acked"].add(x)
        # nothing owed at quiescence
        for k, it in inst.items():
            if not it["on"]:
                continue
            owed = [x for x in range(1, it["n"] + 1) if x not in it["acked"]]
            stats["instances_checked"] = stats.get("instances_checked", 0) + 1
            if owed:
                viol.append({"step": i, "kind": "owed", "what": "channel %d.%d: the broker is idle but publishes %s were never acknowledged (%d published, after `%s`)" % (k[0], k[1], owed[:8], it["n"], st["op"])})
                it["acked"].update(owed)   # report each once
        prev = cur
    return viol


C10_USERS = {"guest": "guest", "alice": "wonder"}


def _c10_bit(f):
    """Recompute the outcome bit of a handshake op from what was actually sent (independent of the generator)."""
    de = lambda x: "" if x == "-" else x
    if f[0] == "STARTOK":
        raw = len(f) > 6 and f[6] == "1"
        return de(f[3]) == "PLAIN" and not raw and C10_USERS.get(de(f[4])) == de(f[5]) and de(f[4]) in C10_USERS
    if f[0] == "TUNEOK":
        return int(f[3]) <= 4096 and int(f[4]) <= 65536
    if f[0] == "COPEN":
        return de(f[3]) == "/"
    return None


def monitor_c10(se, stats):
    """Nothing is reachable without a completed handshake: a connection counts as open only after start-ok with a
    configured user's password via PLAIN, tune-ok within the limits and open of the existing vhost, in that order;
    any other frame on an unopened connection ends with that connection gone, and nothing but that connection's own
    record changes in the broker."""
    viol = []
    stage = {}   # raw connections: id -> s | t | k ; opened ones are dropped from here
    prev = None
    for i, st in enumerate(se["steps"]):
        if st["snap"] == ["WEDGED"]:
            break
        cur = parse_snap(st["snap"])
        subs = [x.strip() for x in st["op"][6:].split("|")] if st["op"].startswith("MULTI ") else [st["op"]]
        fr = frames_of(st)
        for op in subs:
            f = op.split()
            if f[0] == "ACCEPT":
                stage[int(f[1])] = "s"
                continue
            if len(f) < 2 or not f[1].isdigit():
                continue
            c = int(f[1])
            if f[0] in ("STARTOK", "TUNEOK", "COPEN"):
                bit = _c10_bit(f)
                if bit != (f[2] == "1"):
                    raise vlib_infra("session op carries the wrong outcome bit: %s" % op)
            if c not in stage:
                continue
            # an op on a connection that has not completed the handshake
            stats["ops_on_unopened"] = stats.get("ops_on_unopened", 0) + 1
            right = (stage[c] == "s" and f[0] == "STARTOK" and f[2] == "1") or (stage[c] == "t" and f[0] == "TUNEOK" and f[2] == "1") \
                or (stage[c] == "k" and f[0] == "COPEN" and f[2] == "1")
            mine = [(h, name, args) for (cc, h, name, args, _) in fr if cc == c]
            names = [n for (_, n, _) in mine]
            if right:
                stats["right_steps"] = stats.get("right_steps", 0) + 1
                nxt = {"s": "t", "t": "k", "k": None}[stage[c]]
                want = {"s": ["connection.tune"], "t": [], "k": ["connection.open-ok"]}[stage[c]]
                if names != want:
                    viol.append({"step": i, "kind": "handshake-reply", "what": "connection %d: the correct handshake step `%s` was answered with %s instead of %s" % (c, op, names, want)})
                if nxt is None:
                    stage.pop(c)
                else:
                    stage[c] = nxt
            else:
                stats["wrong_steps"] = stats.get("wrong_steps", 0) + 1
                stats.setdefault("wrong_kinds", {})
                stats["wrong_kinds"][f[0]] = stats["wrong_kinds"].get(f[0], 0) + 1
                # the connection must be gone by the end of the step, having got at most a connection.close
                alive = c in cur["conns"]
                if alive:
                    viol.append({"step": i, "kind": "still-open", "what": "connection %d (handshake stage %s) survived `%s`: frames %s, stage now %s" % (
                        c, stage[c], op, names, cur["conns"][c].get("stage"))})
                bad = [n for n in names if n not in ("connection.close", "GONE", "connection.close-ok")]
                if bad:
                    viol.append({"step": i, "kind": "reply-before-open", "what": "connection %d (handshake stage %s) got %s in answer to `%s`" % (c, stage[c], bad, op)})
                stage.pop(c, None)
            # no side effect: everything except this connection's own lines is as before
            if prev is not None:
                def world(sn):
                    return [l for l in sn["raw"] if not (l.startswith("conn %d " % c) or l.startswith("ch %d." % c))]
                if not multi_conn_step(subs, c) and world(cur) != world(prev):
                    diff = [l for l in world(cur) if l not in world(prev)] + ["-" + l for l in world(prev) if l not in world(cur)]
                    viol.append({"step": i, "kind": "side-effect", "what": "`%s` on unopened connection %d changed broker state: %s" % (op, c, diff[:4])})
        # an opened connection must have gone through the three steps: a connection the client never completed the
        # handshake on may not show as open
        for c, cn in cur["conns"].items():
            if c in stage and cn.get("stage") == "o":
                viol.append({"step": i, "kind": "opened-early", "what": "connection %d shows as open at handshake stage %s (after `%s`)" % (c, stage[c], st["op"])})
        prev = cur
    return viol


def multi_conn_step(subs, c):
    """does the step also carry ops of other connections (then the world comparison is not attributable)"""
    for op in subs:
        f = op.split()
        if len(f) > 1 and f[1].isdigit() and int(f[1]) != c:
            return True
    return False


def vlib_infra(msg):
    import vlib
    return vlib.Infra(msg)


C17_OPS = {"QD": 3, "QB": 3, "QU": 3, "QP": 3, "QDEL": 3, "CONS": 3, "GET": 3}


def monitor_c17(se, stats):
    """Exclusive access and isolation: an operation that names an exclusive queue through a connection that does not own
    it gets RESOURCE_LOCKED (a second consumer beside / as an exclusive one ACCESS_REFUSED) and changes nothing; an
    operation addressed to one queue leaves the waiting and the unsettled messages of every other queue as they were."""
    viol = []
    prev = None
    for i, st in enumerate(se["steps"]):
        if st["snap"] == ["WEDGED"]:
            break
        cur = parse_snap(st["snap"])
        f = st["op"].split()
        if prev is not None and f[0] in C17_OPS and "WEDGED" not in (st.get("note") or ""):
            c, h = int(f[1]), int(f[2])
            qn = de(f[3])
            q = prev["queues"].get(qn)
            pch = prev["chans"].get((c, h))
            fr = frames_of(st)
            closes = [(x[0], x[1], x[2], [int(a) for a in x[3]]) for x in fr if x[2] in ("channel.close", "connection.close")]
            usable = pch is not None and pch["st"] == 1
            if q is not None and q["active"] and usable:
                foreign = q["excl"] and q["owner"] != c
                exp = expected_refusal(st["op"], prev)
                if foreign:
                    stats["foreign_ops_on_exclusive"] = stats.get("foreign_ops_on_exclusive", 0) + 1
                    stats.setdefault("foreign_kinds", {})
                    stats["foreign_kinds"][f[0]] = stats["foreign_kinds"].get(f[0], 0) + 1
                    silent = f[0] == "QD" and f[7] == "1" and f[8] == "1"      # passive no-wait declare: no reply, no effect
                    if not closes and not silent:
                        viol.append({"step": i, "kind": "lock", "what": "`%s` names queue %s, exclusive to connection %d, through connection %d and was not refused (frames %s)" % (
                            st["op"], qn, q["owner"], c, st["frames"])})
                    elif exp == ("ch", 405):
                        cls, mth = METH[f[0]]
                        if not any(x[2] == "channel.close" and x[3][:3] == [405, cls, mth] and (x[0], x[1]) == (c, h) for x in closes):
                            viol.append({"step": i, "kind": "lock-code", "what": "`%s` on foreign exclusive queue %s: expected channel.close(405,%d,%d), observed %s" % (st["op"], qn, cls, mth, closes)})
                    if entity_lines(st["snap"], (c, h)) != entity_lines(prev["raw"], (c, h)) and not silent:
                        d = [(a, b) for a, b in zip(entity_lines(prev["raw"], (c, h)), entity_lines(st["snap"], (c, h))) if a != b]
                        viol.append({"step": i, "kind": "lock-effect", "what": "refused `%s` on foreign exclusive queue %s changed the broker state: %s" % (st["op"], qn, d[:2])})
                elif q["excl"]:
                    stats["owner_ops_on_exclusive"] = stats.get("owner_ops_on_exclusive", 0) + 1
                    if any(x[3][0] == 405 for x in closes):
                        viol.append({"step": i, "kind": "owner-locked-out", "what": "the owner's `%s` on its exclusive queue %s was refused with RESOURCE_LOCKED" % (st["op"], qn)})
                if f[0] == "CONS" and not foreign and q["consumers"] and (q["cexcl"] or f[6] == "1"):
                    stats["exclusive_consume_conflicts"] = stats.get("exclusive_consume_conflicts", 0) + 1
                    dup = any(cm["tag"] == de(f[4]) for cm in pch["consumers"])
                    if not dup and not any(x[2] == "channel.close" and x[3][:3] == [403, 60, 20] for x in closes):
                        viol.append({"step": i, "kind": "exclusive-consumer", "what": "`%s`: queue %s has consumers %s (exclusive consumer: %s) - expected ACCESS_REFUSED, observed %s" % (
                            st["op"], qn, q["consumers"], q["cexcl"], closes or st["frames"])})
            # isolation: every other queue keeps its waiting and unsettled messages
            for on, oq in prev["queues"].items():
                if on == qn or on not in cur["queues"]:
                    if on != qn and on not in cur["queues"] and not (f[0] == "QDEL"):
                        pass
                    continue
                stats["other_queues_compared"] = stats.get("other_queues_compared", 0) + 1
                if cur["queues"][on]["ready"] != oq["ready"]:
                    viol.append({"step": i, "kind": "isolation", "what": "`%s` is addressed to queue %s but the waiting messages of queue %s changed: %s -> %s" % (
                        st["op"], qn, on, oq["ready"], cur["queues"][on]["ready"])})
            pun = sorted((k, u["tag"], u["uid"]) for k, ch in prev["chans"].items() for u in ch["unacked"] if u["queue"] != qn and k in cur["chans"] and not (k == (c, h) and closes))
            cun = sorted((k, u["tag"], u["uid"]) for k, ch in cur["chans"].items() for u in ch["unacked"] if u["queue"] != qn and not (k == (c, h) and closes))
            if pun != cun and not any(x[2] == "connection.close" for x in closes):
                viol.append({"step": i, "kind": "isolation", "what": "`%s` is addressed to queue %s but unsettled deliveries of other queues changed: %s -> %s" % (st["op"], qn, pun, cun)})
        prev = cur
    return viol


C11_ALLOC_CONST, C11_ALLOC_FACTOR = 512 * 1024, 256


def monitor_c11(se, stats):
    """No client input crashes, wedges or balloons the broker: after every hostile byte string the canary round trip
    (publish + get on another connection) succeeds, the process allocated no more than a constant plus a small multiple
    of what was sent, and the snapshot still answers. (A crash of the process is reported by the session runner.)"""
    viol = []
    last_raw = None
    deaf = set()     # clients that have stopped reading their socket: the broker cannot go quiet while it has something for them
    for i, st in enumerate(se["steps"]):
        f = st["op"].split()
        if f[0] == "DEAF":
            (deaf.add if f[2] == "1" else deaf.discard)(f[1])
            last_raw = st["op"]
        if f[0] in ("DROP", "CLOSE") and f[1] in deaf:
            deaf.discard(f[1])
        # with a deaf client the broker does not go quiet (TIMEOUT) and the deep snapshot, which reads every consumer's
        # status, waits behind the cancel of the deaf consumer: what counts then is whether the broker still serves the
        # shallow snapshot (note WEDGED if not) and the canary
        note = st.get("note") or ""
        if "WEDGED" in note or (not deaf and (st["snap"] == ["WEDGED"] or "TIMEOUT" in note)):
            viol.append({"step": i, "kind": "wedged", "what": "the broker stopped answering after `%s` (%s); last hostile input: %s" % (st["op"], st.get("note"), last_raw)})
            break
        if "ADMIN-PANIC" in (st.get("note") or ""):
            viol.append({"step": i, "kind": "admin-panic", "what": "an admin endpoint panicked while it was polled during `%s` (%s)" % (st["op"], st.get("note"))})
        if f[0] == "RAW":
            last_raw = st["op"]
            stats["hostile_inputs"] = stats.get("hostile_inputs", 0) + 1
            stats.setdefault("hostile_kinds", {})
            stats["hostile_kinds"][f[2]] = stats["hostile_kinds"].get(f[2], 0) + 1
            alloc, sent = st.get("alloc", 0), st.get("sent", 0)
            stats["max_alloc"] = max(stats.get("max_alloc", 0), alloc)
            if alloc > C11_ALLOC_CONST + C11_ALLOC_FACTOR * sent:
                viol.append({"step": i, "kind": "balloon", "what": "`%s` (%d bytes sent) made the broker allocate %d bytes (allowed %d)" % (
                    st["op"], sent, alloc, C11_ALLOC_CONST + C11_ALLOC_FACTOR * sent)})
            closed = any(x[2] in ("connection.close", "GONE") for x in frames_of(st))
            if closed:
                stats["offender_closed"] = stats.get("offender_closed", 0) + 1
        elif f[0] == "GET" and f[3] == "canary":
            stats["canary_round_trips"] = stats.get("canary_round_trips", 0) + 1
            if not any(x[2] == "basic.get-ok" for x in frames_of(st)):
                viol.append({"step": i, "kind": "canary", "what": "the canary connection did not get its message back after %s (frames %s)" % (last_raw, st["frames"])})
    return viol


def monitor_c09(se, stats):
    """Restart keeps exactly the durable topology and the stored messages: after a RESTART step every queue and every
    exchange that is not pre-declared is durable, every durable one from before is there with its flags, a binding is
    there iff it was there before and its queue survived, a surviving queue holds exactly the persistent messages it
    held (waiting or unsettled), in publish order, and nothing else."""
    viol = []
    prev = None
    pers = {}
    for i, st in enumerate(se["steps"]):
        if st["snap"] == ["WEDGED"]:
            if st["op"] == "RESTART":
                viol.append({"step": i, "kind": "restart-wedged", "what": "the broker did not come back from the restart (%s)" % st.get("note")})
            break
        cur = parse_snap(st["snap"])
        for g in ([x.strip().split() for x in st["op"][6:].split("|")] if st["op"].startswith("MULTI ") else [st["op"].split()]):
            if g[0] == "PUB":
                pers[g[8]] = g[7] == "1"
        if st["op"] == "RESTART" and prev is not None:
            stats["restarts"] = stats.get("restarts", 0) + 1
            raw = {"p": {}, "c": {}}
            for k, sn in (("p", prev), ("c", cur)):
                for l in sn["raw"]:
                    if l.startswith("queue "):
                        m = re.match(r"queue (\S+) .* ad=(\d) dur=(\d)", l)
                        raw[k][("q", m.group(1))] = (m.group(2), m.group(3))
                    elif l.startswith("exchange "):
                        m = re.match(r"exchange (\S*) type=(\d) dur=(\d) ad=(\d) int=(\d) bindings=\[(.*?)\]$", l)
                        raw[k][("x", m.group(1))] = (m.group(2), m.group(3), m.group(4), m.group(5), m.group(6).split())
            for key, v in raw["p"].items():
                if key[0] == "q":
                    durable = v[1] == "1"
                    stats["queues_over_restart"] = stats.get("queues_over_restart", 0) + 1
                    if durable and key not in raw["c"]:
                        viol.append({"step": i, "kind": "lost", "what": "durable queue %s did not survive the restart" % key[1]})
                    if not durable and key in raw["c"]:
                        viol.append({"step": i, "kind": "ghost", "what": "non-durable queue %s came back from the restart" % key[1]})
                    if durable and key in raw["c"] and raw["c"][key] != v:
                        viol.append({"step": i, "kind": "altered", "what": "durable queue %s came back with flags %s instead of %s" % (key[1], raw["c"][key], v)})
                else:
                    system = key[1] == "" or key[1].startswith("amq.")
                    durable = v[1] == "1"
                    if (durable or system) and key not in raw["c"]:
                        viol.append({"step": i, "kind": "lost", "what": "durable exchange %s did not survive the restart" % key[1]})
                    if not durable and not system and key in raw["c"]:
                        viol.append({"step": i, "kind": "ghost", "what": "non-durable exchange %s came back from the restart" % key[1]})
                    if key in raw["c"]:
                        if raw["c"][key][:4] != v[:4]:
                            viol.append({"step": i, "kind": "altered", "what": "exchange %s came back as %s instead of %s" % (key[1], raw["c"][key][:4], v[:4])})
                        want = sorted(b for b in v[4] if raw["p"].get(("q", b.split("<-")[0]), ("0", "0"))[1] == "1")
                        got = sorted(raw["c"][key][4])
                        stats["bindings_over_restart"] = stats.get("bindings_over_restart", 0) + len(want)
                        if want != got:
                            viol.append({"step": i, "kind": "bindings", "what": "exchange %s: bindings after the restart %s, expected %s (those to surviving queues)" % (key[1], got, want)})
            for key in raw["c"]:
                if key not in raw["p"]:
                    viol.append({"step": i, "kind": "ghost", "what": "%s %s appeared out of nothing after the restart" % ("queue" if key[0] == "q" else "exchange", key[1])})
            # messages
            for qn, q in cur["queues"].items():
                pq = prev["queues"].get(qn)
                if pq is None:
                    continue
                held = list(pq["ready"]) + [u["uid"] for ch in prev["chans"].values() for u in ch["unacked"] if u["queue"] == qn]
                want = sorted((u for u in held if pers.get(u)), key=lambda x: int(x) if x.isdigit() else 0)
                stats["messages_over_restart"] = stats.get("messages_over_restart", 0) + len(want)
                if q["ready"] != want:
                    viol.append({"step": i, "kind": "messages", "what": "queue %s holds %s after the restart, expected its persistent messages %s in publish order" % (qn, q["ready"], want)})
        prev = cur
    return viol
