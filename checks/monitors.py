"""Executable statements of the broker-level properties, evaluated on observed sessions of the implementation.
Each monitor(se, stats) returns a list of {"step": i, "what": text}."""
import re
from brokercheck import parse_snap, frames_of

METH = {"CH": (20, 10), "CHCLOSE": (20, 40), "FLOW": (20, 20), "XD": (40, 10), "XDEL": (40, 20), "QD": (50, 10), "QB": (50, 20),
        "QU": (50, 50), "QP": (50, 30), "QDEL": (50, 40), "QOS": (60, 10), "CONS": (60, 20), "CANCEL": (60, 30), "PUB": (60, 40),
        "PUBM": (60, 40), "GET": (60, 70), "ACK": (60, 80), "REJ": (60, 90), "RECOVER": (60, 110), "NACK": (60, 120),
        "CONFIRM": (85, 10), "TXSELECT": (90, 10)}
EXTYPES = {"direct", "fanout", "topic", "headers"}


def de(x):
    return "" if x == "-" else x


def expected_refusal(op, pre):
    """The refusal the property text demands for `op` in state `pre` (None = must not be refused):
    ("ch"|"conn", code). Written from the AMQP reply-code table, not from the model."""
    f = op.split()
    k = f[0]
    if k not in METH:
        return None
    c, h = int(f[1]), int(f[2])
    ch = pre["chans"].get((c, h))
    if ch is not None and ch["st"] == 2:
        return "discarded"        # the broker is closing this channel: everything but close / close-ok is dropped
    if k != "CH" and (ch is None or ch["st"] in (0, 3)):
        return ("conn", 504)      # the channel is not open
    if k in ("CH", "CHCLOSE", "FLOW", "QOS", "CONFIRM", "CANCEL"):
        if k == "CH" and ch is not None and ch["st"] == 1:
            return ("conn", 504)
        if k == "CANCEL" and not any(cm["tag"] == f[3] for cm in ch["consumers"]):
            return ("ch", 404)
        return None
    Q = pre["queues"]
    X = pre["exchanges"]

    def q_of(name):
        q = Q.get(name)
        return q if q and q["active"] else None

    def locked(q):
        return q["excl"] and q["owner"] != c
    if k == "TXSELECT" or k == "RECOVER":
        return ("conn", 540)
    if k == "XDEL":
        return ("ch", 540)
    if k == "XD":
        name, ty, dur, ad, internal, pas = de(f[3]), f[4], f[5], f[6], f[7], f[8] == "1"
        if ty not in EXTYPES:
            return ("ch", 540)
        if name == "":
            return ("ch", 503)
        if pas:
            if f[9] == "1":
                return None
            return None if name in X else ("ch", 404)
        if name.startswith("amq."):
            return ("ch", 403)
        return "maybe406" if name in X else None
    if k == "QD":
        name, dur, excl, ad, pas = de(f[3]), f[4] == "1", f[5] == "1", f[6] == "1", f[7] == "1"
        if name == "":
            return ("ch", 503)
        q = q_of(name)
        if pas:
            if f[8] == "1":
                return None
            if q is None:
                return ("ch", 404)
            return ("ch", 405) if locked(q) else None
        if q is None:
            return None
        if locked(q):
            return ("ch", 405)
        return None if (q["dur"], q["ad"], q["excl"]) == (dur, ad, excl) else ("ch", 406)
    if k in ("QB", "QU"):
        qn, ex = de(f[3]), de(f[4])
        if ex not in X:
            return ("ch", 404)
        if k == "QB" and ex == "":
            return ("ch", 403)
        q = q_of(qn)
        if q is None:
            return ("ch", 404)
        return ("ch", 405) if locked(q) else None
    if k in ("QP", "QDEL", "GET", "CONS"):
        q = q_of(de(f[3]))
        if q is None:
            return ("ch", 404)
        if locked(q):
            return ("ch", 405)
        if k == "QDEL":
            if f[4] == "1" and q["consumers"]:
                return ("ch", 406)
            if f[5] == "1" and q["ready"]:
                return ("ch", 406)
        if k == "CONS":
            if ch is not None and any(cm["tag"] == f[4] for cm in ch["consumers"]):
                return ("ch", 530)
            if q["consumers"] and (q["cexcl"] or f[6] == "1"):
                return ("ch", 403)
        return None
    if k in ("ACK", "NACK", "REJ"):
        mult = (f[4] == "1") if k in ("ACK", "NACK") else False
        if mult:
            return None
        tags = [u["tag"] for u in ch["unacked"]] if ch else []
        return None if int(f[3]) in tags else ("ch", 406)
    if k in ("PUB", "PUBM"):
        if f[6] == "1":
            return ("ch", 540)
        return None if de(f[3]) in X else ("ch", 404)
    return None


def entity_lines(snap_lines, skip_chan=None):
    out = []
    for l in snap_lines:
        if skip_chan and l.startswith("ch %d.%d " % skip_chan):
            l = re.sub(r" st=\d ", " st=* ", l)
        out.append(l)
    return out


def monitor_c16(se, stats):
    """Refused operations carry the right error and change nothing; operations that must be refused are."""
    viol = []
    prev = None
    for i, st in enumerate(se["steps"]):
        pre = parse_snap(prev) if prev is not None else None
        f = st["op"].split()
        fr = frames_of(st)
        if pre is not None and f[0] in METH and "WEDGED" not in (st.get("note") or ""):
            c, h = int(f[1]), int(f[2])
            exp = expected_refusal(st["op"], pre)
            closes = [(x[0], x[1], x[2], [int(a) for a in x[3]]) for x in fr if x[2] in ("channel.close", "connection.close")]
            stats["ops_judged"] = stats.get("ops_judged", 0) + 1
            if exp == "discarded":
                pass
            elif exp in (None, "maybe406"):
                if closes and exp is None:
                    viol.append({"step": i, "what": "operation `%s` must succeed in this state but was refused with %s" % (st["op"], closes[0])})
            else:
                scope, code = exp
                stats["refusals_expected"] = stats.get("refusals_expected", 0) + 1
                want = "channel.close" if scope == "ch" else "connection.close"
                cls, mth = METH[f[0]]
                ok = [x for x in closes if x[2] == want and x[3][0] == code and x[3][1] == cls and x[3][2] == mth and x[0] == c and (scope == "conn" or x[1] == h)]
                if not ok:
                    viol.append({"step": i, "what": "operation `%s` must be refused with %s %d naming class %d method %d, observed %s" % (
                        st["op"], want, code, cls, mth, closes or st["frames"])})
            if closes and exp != "discarded":
                # nothing but the offending channel's status may have changed
                if entity_lines(prev, (c, h)) != entity_lines(st["snap"], (c, h)):
                    d = [(a, b) for a, b in zip(entity_lines(prev, (c, h)), entity_lines(st["snap"], (c, h))) if a != b]
                    viol.append({"step": i, "what": "refused operation `%s` changed the broker state: %s" % (st["op"], d[:2])})
                stats["refusals_observed"] = stats.get("refusals_observed", 0) + 1
        prev = st["snap"]
    return viol


def monitor_c20(se, stats):
    """Counts reported to clients and the admin API are accurate."""
    viol = []
    prev = None
    qborn, uborn = {}, {}
    for i, st in enumerate(se["steps"]):
        if st["snap"] == ["WEDGED"]:
            break
        cur = parse_snap(st["snap"])
        # (a) the figures of the admin API (queue metrics, server totals) at quiescence
        # a delivery belongs to the queue object it came from: a queue declared later under the same name is another queue
        for qn in cur["queues"]:
            if prev is None or qn not in prev["queues"]:
                qborn[qn] = i
        un = {}
        live = set()
        for key, ch in cur["chans"].items():
            for u in ch["unacked"]:
                k = (key, u["tag"], u["uid"])
                live.add(k)
                if k not in uborn:
                    uborn[k] = i
                if u["queue"] in cur["queues"] and uborn[k] >= qborn.get(u["queue"], 0):
                    un[u["queue"]] = un.get(u["queue"], 0) + 1
                else:
                    un["\0orphan"] = un.get("\0orphan", 0) + 1
        for k in list(uborn):
            if k not in live:
                del uborn[k]
        tot_r = tot_u = 0
        for qn, q in cur["queues"].items():
            r, u = len(q["ready"]), un.get(qn, 0)
            tot_r += r
            tot_u += u
            stats["queue_states"] = stats.get("queue_states", 0) + 1
            if q["len"] != r:
                viol.append({"step": i, "what": "queue %s: length counter %d but %d messages are ready (after `%s`)" % (qn, q["len"], r, st["op"])})
            if q["m"] != (r, u, r + u):
                viol.append({"step": i, "what": "queue %s: admin figures ready/unacked/total %s but truth is %s (after `%s`)" % (qn, q["m"], (r, u, r + u), st["op"])})
        orphan = sum(v for k, v in un.items() if k not in cur["queues"])
        if cur["server"] is not None and cur["server"] != (tot_r, tot_u + orphan, tot_r + tot_u + orphan):
            viol.append({"step": i, "what": "server figures ready/unacked/total %s but truth is %s (after `%s`)" % (
                cur["server"], (tot_r, tot_u + orphan, tot_r + tot_u + orphan), st["op"])})
        # (b) counts carried by replies
        if prev is not None:
            f = st["op"].split()
            for (c, h, name, args, tail) in frames_of(st):
                if name == "queue.declare-ok" and f[0] == "QD":
                    q = prev["queues"].get(args[0])
                    want = (len(q["ready"]), len(q["consumers"])) if q else (0, 0)
                    stats["count_replies"] = stats.get("count_replies", 0) + 1
                    if (int(args[1]), int(args[2])) != want:
                        viol.append({"step": i, "what": "declare-ok for %s says messages/consumers %s, truth %s" % (args[0], (args[1], args[2]), want)})
                elif name == "queue.purge-ok" and f[0] == "QP":
                    q = prev["queues"].get(f[3])
                    stats["count_replies"] = stats.get("count_replies", 0) + 1
                    if q is not None and int(args[0]) != len(q["ready"]):
                        viol.append({"step": i, "what": "purge-ok for %s says %s, %d messages were ready" % (f[3], args[0], len(q["ready"]))})
                elif name == "queue.delete-ok" and f[0] == "QDEL":
                    q = prev["queues"].get(f[3])
                    stats["count_replies"] = stats.get("count_replies", 0) + 1
                    if q is not None and int(args[0]) != len(q["ready"]):
                        viol.append({"step": i, "what": "delete-ok for %s says %s, %d messages were ready" % (f[3], args[0], len(q["ready"]))})
                elif name == "basic.get-ok" and f[0] == "GET":
                    q = prev["queues"].get(f[3])
                    stats["count_replies"] = stats.get("count_replies", 0) + 1
                    if q is not None and int(args[4]) != len(q["ready"]) - 1:
                        viol.append({"step": i, "what": "get-ok for %s says %s messages remain, truth %d" % (f[3], args[4], len(q["ready"]) - 1)})
                elif name == "basic.get-empty" and f[0] == "GET":
                    q = prev["queues"].get(f[3])
                    ch = prev["chans"].get((c, h))
                    cn = prev["conns"].get(c)
                    windows_idle = ch is not None and cn is not None and ch["qos"][:2] == [0, 0] and cn["qos"][:2] == [0, 0]
                    if q is not None and q["ready"] and (f[4] == "1" or windows_idle):
                        viol.append({"step": i, "what": "get-empty for %s although %d messages are ready and no prefetch window blocks" % (f[3], len(q["ready"]))})
        prev = cur
    return viol


def monitor_c15(se, stats):
    """Delivery tags start at 1 and grow by one per deliver / get-ok on a channel instance; ack / nack / reject settle
    exactly what they name on their own channel and nothing on any other."""
    viol = []
    nxt = {}
    prev = None
    for i, st in enumerate(se["steps"]):
        if st["snap"] == ["WEDGED"]:
            break
        cur = parse_snap(st["snap"])
        for (c, h, name, args, tail) in frames_of(st):
            if name == "channel.open-ok":
                nxt[(c, h)] = 0
            elif name in ("basic.deliver", "basic.get-ok"):
                tag = int(args[1] if name == "basic.deliver" else args[0])
                stats["deliveries"] = stats.get("deliveries", 0) + 1
                if tag != nxt.get((c, h), 0) + 1:
                    viol.append({"step": i, "what": "delivery tag %d on channel %d.%d, expected %d (after `%s`)" % (tag, c, h, nxt.get((c, h), 0) + 1, st["op"])})
                nxt[(c, h)] = tag
        f = st["op"].split()
        if prev is not None and f[0] in ("ACK", "NACK", "REJ") and not any(":channel.close(" in x or ":connection.close(" in x for x in st["frames"]):
            c, h, tag = int(f[1]), int(f[2]), int(f[3])
            mult = (f[4] == "1") if f[0] in ("ACK", "NACK") else False
            pch = prev["chans"].get((c, h))
            if pch is not None and pch["st"] == 1:
                stats["settles"] = stats.get("settles", 0) + 1
                before = {u["tag"]: u for u in pch["unacked"]}
                covered = {t for t in before if (mult and (tag == 0 or t <= tag)) or (not mult and t == tag)}
                after = {u["tag"]: u for u in cur["chans"].get((c, h), {"unacked": []})["unacked"]}
                gone = {t for t in before if t not in after}
                if gone != covered:
                    viol.append({"step": i, "what": "`%s` settled tags %s of channel %d.%d, it names %s" % (st["op"], sorted(gone), c, h, sorted(covered))})
                for key, och in prev["chans"].items():
                    if key == (c, h) or key not in cur["chans"]:
                        continue
                    otags = {u["tag"] for u in cur["chans"][key]["unacked"]}
                    lost = [u["tag"] for u in och["unacked"] if u["tag"] not in otags]
                    if lost:
                        viol.append({"step": i, "what": "`%s` on channel %d.%d removed deliveries %s of channel %d.%d" % (st["op"], c, h, lost, key[0], key[1])})
        prev = cur
    return viol
