"""C10 - nothing is reachable without an authenticated, opened connection."""
import brokercheck, monitors


def nontrivial(se):
    return any(st["op"].split()[0] in ("STARTOK", "TUNEOK", "COPEN") for st in se["steps"])


def run(res):
    brokercheck.run(res, "C10", ["Props/C10.v", "Props/C10_history.v"], monitors.monitor_c10, nontrivial=nontrivial, focus="handshake", racy=False)


def replay(path):
    return brokercheck.replay(path, monitors.monitor_c10)
