(* Driver of the extracted broker model: reads sessions on stdin
     SESSION <rabbit 0|1>
     <op line> ...
     END
   and prints, per step, the frames and snapshot lines the model predicts. Trusted glue:
   only string conversion and I/O. *)
module M = Brokermodel

let ascii_of_char (c : char) : M.ascii =
  let n = Char.code c in
  let b i = (n lsr i) land 1 = 1 in
  M.Ascii (b 0, b 1, b 2, b 3, b 4, b 5, b 6, b 7)

let char_of_ascii (a : M.ascii) : char =
  match a with
  | M.Ascii (b0, b1, b2, b3, b4, b5, b6, b7) ->
    let v b i = if b then 1 lsl i else 0 in
    Char.chr (v b0 0 + v b1 1 + v b2 2 + v b3 3 + v b4 4 + v b5 5 + v b6 6 + v b7 7)

let coq_string (s : String.t) : M.string =
  let r = ref M.EmptyString in
  for i = String.length s - 1 downto 0 do r := M.String (ascii_of_char s.[i], !r) done;
  !r

let ocaml_string (s : M.string) : String.t =
  let b = Buffer.create 64 in
  let rec go = function M.EmptyString -> () | M.String (a, t) -> Buffer.add_char b (char_of_ascii a); go t in
  go s; Buffer.contents b

let all_fixed : M.fixes =
  { M.fx_direct_all = true; fx_redelivered = true; fx_delete_checks_first = true; fx_noack_total_once = true;
    fx_get_count = true; fx_closeok_releases = true; fx_excl_owner = true; fx_clear_current = true;
    fx_not_impl = true; fx_empty_body = true; fx_discard_closing = true; fx_nowait = true; fx_stage = true; fx_reopen_resets = true; fx_chan_open = true }

let parse_fixes (s : String.t) : M.fixes =
  (* 13 characters 0/1 in the field order above *)
  let g i = i < String.length s && s.[i] = '1' in
  { M.fx_direct_all = g 0; fx_redelivered = g 1; fx_delete_checks_first = g 2; fx_noack_total_once = g 3;
    fx_get_count = g 4; fx_closeok_releases = g 5; fx_excl_owner = g 6; fx_clear_current = g 7;
    fx_not_impl = g 8; fx_empty_body = g 9; fx_discard_closing = g 10; fx_nowait = g 11; fx_stage = g 12; fx_reopen_resets = g 13; fx_chan_open = g 14 }

let () =
  let rabbit = ref true and rollback = ref true and fx = ref all_fixed and ops = ref [] and in_session = ref false in
  (try
     while true do
       let line = input_line stdin in
       if String.length line >= 7 && String.sub line 0 7 = "SESSION" then begin
         let parts = String.split_on_char ' ' line in
         rabbit := (List.nth parts 1 = "1");
         rollback := (try List.nth parts 2 = "1" with _ -> true);
         fx := (try parse_fixes (List.nth parts 3) with _ -> all_fixed);
         ops := []; in_session := true
       end else if line = "END" && !in_session then begin
         let cfg = { M.cfg_rabbit = !rabbit; cfg_rollback = !rollback; cfg_release_first = false } in
         let res = M.run_text_session cfg !fx (List.rev_map coq_string !ops |> List.rev |> List.rev) in
         List.iter (fun (frames, snap) ->
             print_string "STEP\n";
             List.iter (fun f -> print_string "F "; print_string (ocaml_string f); print_newline ()) frames;
             List.iter (fun l -> print_string "S "; print_string (ocaml_string l); print_newline ()) snap) res;
         print_string "ENDSESSION\n";
         in_session := false
       end else if !in_session && String.trim line <> "" then ops := line :: !ops
     done
   with End_of_file -> ())
