#!/bin/bash
# Extract the model runner from the compiled Coq development and build the OCaml driver. $1 = output dir
set -e
root=$(cd "$(dirname "$0")/.." && pwd)
out=${1:-$root/.work/ocaml}
mkdir -p "$out"
cp "$root/ocaml/extract_broker.v" "$root/ocaml/driver.ml" "$out"/
cd "$out"
timeout 300 coqc -Q "$root/coq" GMQ extract_broker.v >/dev/null
rm -f brokermodel.mli
timeout 300 ocamlfind ocamlopt -w -a -O2 brokermodel.ml driver.ml -o brokermodel 2>/dev/null || timeout 300 ocamlfind ocamlopt -w -a brokermodel.ml driver.ml -o brokermodel
echo built "$out/brokermodel"
