#!/bin/bash
# Extract the model runner from the compiled Coq development and build the OCaml driver. $1 = output dir
set -e
out=${1:-/verif/.work/ocaml}
mkdir -p "$out"
cp /verif/ocaml/extract_broker.v /verif/ocaml/driver.ml "$out"/
cd "$out"
timeout 300 coqc -Q /verif/coq GMQ extract_broker.v >/dev/null
rm -f brokermodel.mli
timeout 300 ocamlfind ocamlopt -w -a -O2 brokermodel.ml driver.ml -o brokermodel 2>/dev/null || timeout 300 ocamlfind ocamlopt -w -a brokermodel.ml driver.ml -o brokermodel
echo built "$out/brokermodel"
