(* Extraction of the broker model runner to OCaml (for volume; a sample of every
   run is re-evaluated inside Coq with vm_compute).  ExtrOcamlBasic only: bool,
   option, list, prod, unit, sumbool map to OCaml's; N/Z/positive/string/ascii
   stay Coq datatypes.  No Extract Constant. *)
From Coq Require Extraction ExtrOcamlBasic.
From Coq Require Import List String NArith.
From GMQ Require Import Broker.Model Run.BrokerRun Run.BrokerScript.
Extraction Language OCaml.
Extraction "brokermodel.ml" run_text_session.
