#!/usr/bin/env python3
"""False-alarm soak: run every registered quick check on the unchanged tree for several seeds, in a private copy of
/verif and a private worktree of /repo. usage: soak.py <slot> <outfile> <seed>... [-- <check ids>]   (SOAK_TIER=thorough SOAK_TIMEOUT=5400 for the thorough tier)"""
import json, os, subprocess, sys, time
args = sys.argv[1:]
ids = None
if "--" in args:
    k = args.index("--"); ids = args[k + 1:]; args = args[:k]
slot, outfile, seeds = args[0], args[1], [int(x) for x in args[2:]]
root = "/tmp/vsoak-%s" % slot
vcopy, wt = root + "/verif", root + "/repo"
os.makedirs(root, exist_ok=True)
if not os.path.isdir(wt):
    subprocess.run(["git", "-C", "/repo", "worktree", "add", "--detach", wt, "HEAD"], check=True, capture_output=True)
else:
    subprocess.run(["git", "-C", wt, "reset", "-q", "--hard"]); subprocess.run(["git", "-C", wt, "clean", "-fdq"])
    subprocess.run(["git", "-C", wt, "checkout", "-q", "--detach", subprocess.run(["git", "-C", "/repo", "rev-parse", "HEAD"], capture_output=True, text=True).stdout.strip()], check=True)
rc = subprocess.run(["rsync", "-a", "--delete", "--exclude", ".work/broker-*", "--exclude", ".work/eval-*", "--exclude", ".work/gen-*", "--exclude", "replays", "--exclude", ".git", "/verif/", vcopy + "/"]).returncode
assert rc in (0, 24), rc   # 24: scratch files of a running check vanished meanwhile
os.makedirs(vcopy + "/replays", exist_ok=True)
if ids is None:
    ids = [c["property_id"] for c in json.load(open("/verif/MANIFEST.json"))["checks"]]
for seed in seeds:
    env = dict(os.environ, VERIF_REPO=wt, VERIF_SEED=str(seed), GOFLAGS="-mod=mod", GOPROXY="off", GOSUMDB="off", GOTOOLCHAIN="local")
    for pid in ids:
        t0 = time.time()
        try:
            c = subprocess.run(["./check", pid, "--tier", os.environ.get("SOAK_TIER", "quick")], cwd=vcopy, env=env, capture_output=True, text=True, timeout=int(os.environ.get("SOAK_TIMEOUT", "1800")))
            out, rc = c.stdout + c.stderr, c.returncode
        except subprocess.TimeoutExpired:
            out, rc = "TIMEOUT", 124
        vio = [l for l in out.splitlines() if l.startswith("VIOLATION") or "violation:" in l]
        rec = {"seed": seed, "check": pid, "exit": rc, "violations": vio[:4], "wall_s": round(time.time() - t0, 1), "tail": out[-500:] if rc != 0 else ""}
        if vio:
            # keep the replay files for inspection
            rec["replays"] = [l.split("replay=")[1].split()[0] for l in vio if "replay=" in l]
        open(outfile, "a").write(json.dumps(rec) + "\n")
print("done")
