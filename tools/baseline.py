#!/usr/bin/env python3
"""Run /repo's pinned test suite with the verif guard OFF and compare with the
stable passes recorded in /root/.vp/BASELINE.json. Exit 0 iff all 76 pass."""
import json, os, subprocess, sys
env = dict(os.environ, GOFLAGS="-mod=mod", GOPROXY="off", GOSUMDB="off", GOTOOLCHAIN="local")
p = subprocess.run(["go", "test", "-json", "-vet=off", "-count=1", "-timeout", "25m", "./..."],
                   cwd=(sys.argv[1] if len(sys.argv) > 1 else "/repo"), env=env, capture_output=True, text=True)
res = {}
for line in p.stdout.splitlines():
    try:
        e = json.loads(line)
    except Exception:
        continue
    if e.get("Test") and e.get("Action") in ("pass", "fail", "skip"):
        res[e["Package"] + "::" + e["Test"]] = e["Action"]
stable = json.load(open("/root/.vp/BASELINE.json"))["stable_pass"]
bad = [t for t in stable if res.get(t) != "pass"]
print("stable passes: %d/%d" % (len(stable) - len(bad), len(stable)))
for t in bad:
    print("NOT PASSING:", t, res.get(t))
sys.exit(1 if bad else 0)
