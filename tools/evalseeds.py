#!/usr/bin/env python3
"""Evaluate seeded breakages against the checks, in a private copy of /verif and a private worktree of /repo.
usage: evalseeds.py <slot> <outfile.jsonl> <mutation dir>...
Each mutation dir holds patch.diff and meta.json ({"property": "Cxx", ...}). For each: apply the patch to the slot's
worktree, run `./check <prop> --tier quick` of the slot's copy with VERIF_REPO pointing at the worktree, record the result."""
import json, os, subprocess, sys, time, shutil
slot, outfile, dirs = sys.argv[1], sys.argv[2], sys.argv[3:]
root = "/tmp/veval-%s" % slot
vcopy, wt = root + "/verif", root + "/repo"
os.makedirs(root, exist_ok=True)
if not os.path.isdir(wt):
    subprocess.run(["git", "-C", "/repo", "worktree", "add", "--detach", wt, "HEAD"], check=True, capture_output=True)
else:
    subprocess.run(["git", "-C", wt, "reset", "-q", "--hard"]); subprocess.run(["git", "-C", wt, "clean", "-fdq"])
    subprocess.run(["git", "-C", wt, "checkout", "-q", "--detach", subprocess.run(["git", "-C", "/repo", "rev-parse", "HEAD"], capture_output=True, text=True).stdout.strip()], check=True)
rc = subprocess.run(["rsync", "-a", "--delete", "--exclude", ".work/broker-*", "--exclude", ".work/eval-*", "--exclude", ".work/gen-*", "--exclude", "replays", "--exclude", ".git", "/verif/", vcopy + "/"]).returncode
assert rc in (0, 24), rc   # 24: scratch files of a running check vanished meanwhile
os.makedirs(vcopy + "/replays", exist_ok=True)
env = dict(os.environ, VERIF_REPO=wt, GOFLAGS="-mod=mod", GOPROXY="off", GOSUMDB="off", GOTOOLCHAIN="local")
for d in dirs:
    d = d.rstrip("/")
    name = os.path.basename(d)
    rec = {"name": name, "dir": d}
    try:
        meta = json.load(open(d + "/meta.json"))
    except Exception as e:
        meta = {}
    prop = meta.get("property") or name.split("-")[0]
    extra = list(meta.get("also_check", []))
    if isinstance(prop, (list, tuple)):
        prop, extra = prop[0], list(prop[1:]) + extra
    try:
        extra += [x for x in json.load(open("/verif/seeded/also_check.json")).get(name, []) if x != prop and x not in extra]
    except Exception:
        pass
    rec["property"] = prop
    subprocess.run(["git", "-C", wt, "reset", "-q", "--hard", "HEAD"]); subprocess.run(["git", "-C", wt, "clean", "-fdq"])
    p = subprocess.run(["git", "-C", wt, "apply", d + "/patch.diff"], capture_output=True, text=True)
    if p.returncode != 0:
        rec["applies"] = False
        rec["apply_err"] = p.stderr[-400:]
        open(outfile, "a").write(json.dumps(rec) + "\n")
        continue
    rec["applies"] = True
    b = subprocess.run(["go", "build", "./..."], cwd=wt, env=env, capture_output=True, text=True)
    rec["builds"] = b.returncode == 0
    rec["checks"] = {}
    plist = os.environ["EVAL_PROPS"].split(",") if os.environ.get("EVAL_PROPS") else [prop] + list(extra)
    for pid in plist:
        t0 = time.time()
        try:
            c = subprocess.run(["./check", pid, "--tier", "quick"], cwd=vcopy, env=env, capture_output=True, text=True, timeout=1500)
            out = c.stdout + c.stderr
            rc = c.returncode
        except subprocess.TimeoutExpired as e:
            out, rc = "TIMEOUT", 124
        vio = [l for l in out.splitlines() if l.startswith("VIOLATION")]
        why = [l for l in out.splitlines() if "violation:" in l][:3]
        rec["checks"][pid] = {"exit": rc, "violation_lines": vio[:3], "what": why, "no_input": any("no-failing-input-found" in l for l in vio),
                              "wall_s": round(time.time() - t0, 1), "tail": out[-600:] if rc not in (0, 1) else ""}
    subprocess.run(["git", "-C", wt, "reset", "-q", "--hard", "HEAD"]); subprocess.run(["git", "-C", wt, "clean", "-fdq"])
    open(outfile, "a").write(json.dumps(rec) + "\n")
print("done", len(dirs))
