#!/bin/bash
# Run the pinned suite (guard off) on every commit of /repo after the given base; one scratch worktree, removed at the end.
base=${1:-0b37fec}
wt=/tmp/wt-percommit-$$
git -C /repo worktree add -q --detach $wt HEAD
for c in $(git -C /repo rev-list --reverse $base..HEAD); do
  git -C $wt checkout -q --detach $c
  r=$(python3 /verif/tools/baseline.py $wt | head -1)
  echo "$c $(git -C /repo log -1 --format=%s $c | cut -c1-60) :: $r"
done
git -C /repo worktree remove --force $wt
