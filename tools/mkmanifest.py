#!/usr/bin/env python3
"""Assemble /verif/MANIFEST.json from manifest.d/Cxx.json fragments and known_findings.jsonl from findings.d/*.jsonl."""
import glob, json, os
V = os.path.dirname(os.path.dirname(os.path.abspath(__file__)))
props = [json.loads(l) for l in open(V + "/properties.jsonl")]
checks = []
for f in sorted(glob.glob(V + "/manifest.d/C*.json")):
    checks.append(json.load(open(f)))
claimed = {c["property_id"] for c in checks}
na_reasons = {}
if os.path.exists(V + "/manifest.d/not_applicable.json"):
    na_reasons = json.load(open(V + "/manifest.d/not_applicable.json"))
hooks = json.load(open(V + "/manifest.d/hooks.json"))
m = {
    "version": 1,
    "setup_cmd": "./setup.sh",
    "hooks": hooks,
    "engines": [
        {"name": "coq", "path": "/verif/coq", "serves_properties": sorted(claimed),
         "kind_free_text": "Coq 8.16.1 development: executable Gallina models + theorems (Props/Cxx.v), full .vo builds"},
        {"name": "translator", "path": "/verif/translator", "serves_properties": sorted(claimed),
         "kind_free_text": "Go go/ast translators regenerating coq/**/gen/*.v from /repo on every run"},
        {"name": "harness", "path": "/verif/harness", "serves_properties": sorted(claimed),
         "kind_free_text": "Go correspondence harness: runs /repo's code (built with -tags verif) on the cases the model is evaluated on"},
    ],
    "checks": checks,
    "not_applicable": [
        {"property_id": p["id"], "reason": na_reasons.get(p["id"], "not claimed yet: its model/theorems/tie are still being built (DESIGN.md section 10); the technique applies")}
        for p in props if p["id"] not in claimed],
    "notes": "See DESIGN.md. Checks: ./check Cxx --tier quick|thorough; exit 0 held, 1 VIOLATION, 2 infrastructure error (no verdict).",
}
json.dump(m, open(V + "/MANIFEST.json", "w"), indent=1)
# known findings
lines = []
for f in sorted(glob.glob(V + "/findings.d/*.jsonl")):
    lines += [l.rstrip("\n") for l in open(f) if l.strip()]
open(V + "/known_findings.jsonl", "w").write("\n".join(lines) + "\n")
print("MANIFEST.json: %d checks; known_findings.jsonl: %d lines" % (len(checks), len(lines)))
