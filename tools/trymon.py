#!/usr/bin/env python3
"""Developer aid: run a monitor over freshly generated sessions (no proofs, no model). usage: trymon.py <monitor> [seed] [n] [steps] [focus] [kind]"""
import sys, os, json
sys.path.insert(0, "/verif/lib"); sys.path.insert(0, "/verif/checks")
import vlib, brokerlib, monitors
mon = getattr(monitors, sys.argv[1])
seed = int(sys.argv[2]) if len(sys.argv) > 2 else 1
n = int(sys.argv[3]) if len(sys.argv) > 3 else 60
steps = int(sys.argv[4]) if len(sys.argv) > 4 else 40
focus = sys.argv[5] if len(sys.argv) > 5 else ""
kind = sys.argv[6] if len(sys.argv) > 6 else "exact"
exe, _err = vlib.build_harness("broker")
ss, cr = brokerlib.gen_sessions(exe, seed, n, steps, kind=kind, focus=focus)
print("sessions", len(ss), "crashes", len(cr))
stats = {}
kinds = {}
shown = 0
for se in ss:
    v = mon(se, stats)
    for x in v:
        kinds[x.get("kind", "?")] = kinds.get(x.get("kind", "?"), 0) + 1
    if v and shown < 6:
        shown += 1
        print(se["id"], se["cfg"], v[0]["what"])
        if "-v" in sys.argv:
            for st in se["steps"][: v[0]["step"] + 1]:
                print("   ", st["op"], "|", st["frames"])
print(stats, kinds)
