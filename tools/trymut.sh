#!/bin/bash
# usage: trymut.sh <patch file | -R commit> <check ids...> : apply to /repo, run the checks (quick), restore /repo.
p=$1; shift
cd /repo
if [ "$p" = "-R" ]; then c=$1; shift; git diff $c $c~1 > /tmp/trymut.diff; p=/tmp/trymut.diff; fi
git apply "$p" || { echo "patch does not apply"; exit 3; }
for id in "$@"; do
  (cd /verif && timeout 900 ./check $id --tier quick 2>&1 | grep -v "^\[check\]" | tail -3; echo "   -> $id exit=${PIPESTATUS[0]}")
done
git -C /repo checkout -- . ; git -C /repo status --short | grep -v db_test
