#!/usr/bin/env python3-vt
import json, sys, glob, jsonschema
m = json.load(open('/verif/MANIFEST.json'))
jsonschema.validate(m, json.load(open('/root/.vp/MANIFEST.schema.json')))
es = json.load(open('/root/.vp/EVIDENCE.schema.json'))
for c in m['checks']:
    try:
        jsonschema.validate(json.load(open(c['evidence_file'])), es)
    except Exception as e:
        print('EVIDENCE INVALID', c['property_id'], str(e)[:300]); 
props = [json.loads(l)['id'] for l in open('/verif/properties.jsonl')]
claimed = {c['property_id'] for c in m['checks']}
na = {n['property_id'] for n in m.get('not_applicable', [])}
print('manifest valid; claimed', sorted(claimed), 'n/a', sorted(na), 'unlisted', [p for p in props if p not in claimed and p not in na])
